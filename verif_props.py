# Single table from which /verif/check and MANIFEST.json are derived.
import json, os

VERIF = os.path.dirname(os.path.abspath(__file__))

COMMON_ASSUMPTIONS = [
    "small-scope bound: domains of 1-4 variables of size 2-3(4); values from the stated alphabets",
    "reference models (truth tables, BFS closure, interval allocator, scalar arithmetic) in the harness are trusted",
    "g++ 12, libstdc++, glibc, ASan trusted; private library state is read (never written) via -fno-access-control in harness TUs only",
]

MC = 'model_checking'
# input-space sweeps are the same technique (exhaustive enumeration of a bounded space of executions on the real code,
# oracle on every one); they report states = executions, transitions = library calls driven, like the history explorers
EX = 'model_checking'

PROPS = {
 'C01': dict(
    level=MC, engines=[('rel', 'eng_c01')],
    title='canonicity',
    technique='bounded exhaustive enumeration of whole function universes and of all API histories to a depth bound, executed on the real library, compared with truth tables',
    rule='E1: every function of the universe |V|^points per (kind, shape, storage flag), each rebuilt by every other path (3 minterm-collection orders, accumulation, copy through every other kind and back, algebraic identities) and required to be the identical edge; matrix products: every ordered pair of a relation family (whole universe up to 512 functions, else all two-value functions with <= 2 nonzero points + identity patterns) through MM_MULTIPLY from a quasi-reduced operand forest into a result forest of each reduction rule, required to be the identical edge of the product table computed with plain loops; E2: every history over the alphabet up to the depth bound, each on a fresh library instance. non-trivial = non-constant function (E1) / history of length >= 2 (E2); distinct by function index / history string',
    bounds={'quick': 'universes <= 4096 functions (sets S1-S6, relations S1-S3 where they fit), matrix products on relation shapes S1-S4 x {MT int, MT real} x result rule {Q,F,I}, histories depth 3 over ~50 symbols, 8 kinds x {optimistic,pessimistic}',
            'thorough': 'universes <= 65536 functions (sets S1-S8, relations S1-S3), histories depth 4'},
    text='Exhaustive over the stated universes and history depth: injectivity of edge identity and identity of every rebuild path, on the real library with unique-table/handle-recycling state varied by histories.',
    note='bounded: tiny domains, alphabets of 2-4 values, history depth 3/4; harness builder and walker trusted',
    design_ref='DESIGN.md 4/C01',
 ),
 'C04': dict(
    level=EX, engines=[('rel', 'eng_c04')],
    technique='bounded exhaustive enumeration of all operand pairs x all forest-assignment patterns on the real library, compared with bitwise truth tables',
    rule='every ordered pair of boolean functions of the shape (whole universe, or U x B and B x U with the structured family B where stated) x {UNION, INTERSECTION, DIFFERENCE} x every forest-assignment pattern (rules of a, b, c and which of them are the same forest object; 22 patterns for sets, 57 for relations) + result-edge-aliases-operand variants; COMPLEMENT over U x rule pairs; CROSS over U x U into every relation rule. non-trivial = result is neither an operand nor a constant; distinct by (op, pattern, a, b)',
    bounds={'quick': 'sets S1-S5 all pairs, S6 via B; relations S1 all pairs, S2 via B, S3 via B1; cross S1-S4',
            'thorough': 'adds S6 and relation S2 all pairs, S3 via B, S7/S8 via B, reverse-order and cache-cleared-before-each-call sweeps'},
    text='Exhaustive over the stated operand universes and forest-assignment patterns, inside warm library instances; result must be the identical canonical edge of the pointwise table; operands re-read afterwards.',
    note='bounded: 1-4 variables of size 2-3; beyond 2^16 pairs only U x B / B x U; default policies',
    design_ref='DESIGN.md 4/C04',
 ),
 'C13': dict(
    level=MC, engines=[('rel', 'eng_c13'), ('asan', 'eng_c13')],
    technique='bounded exhaustive enumeration of histories BUILD* [OP] REORDER(pi) [REORDER(pi2)] [OP] over all target permutations, all 8 heuristics, both swap methods and all rand() answer scripts, executed on the real library (release and ASan builds), compared with permuted truth tables',
    rule='every (register set, warm flag, target permutation pi, optional second permutation, rand() answer script for RANDOM) per (kind, shape, heuristic, swap method); register sets = every single catalogue function and every sharing triple; each execution on a fresh library instance. non-trivial = pi is not the identity; distinct by the whole case string',
    bounds={'quick': '12 kinds (MT bool/int/real sets F/Q, EV+ sets F/Q, MT bool/int relations F/Q/I) x shapes S4,S7,(S8 sets) x 8 heuristics x 2 swap methods; catalogue <= 64 functions (10 for RANDOM); second permutation in {none, identity, reverse}; ASan build on S7/S8',
            'thorough': 'adds S5, S11 (sets) and S5 (relations), catalogue <= 256 (24 for RANDOM), second permutation = every permutation'},
    text='Exhaustive over target permutations (2..24), heuristics, swap methods, rand() scripts and the stated register catalogues; every held edge must read back the permuted table through two readers, be the canonical edge, the forest must pass the full audit A1-A12, and a bystander forest over the same domain must be untouched.',
    note='bounded: 2-4 variables with non-uniform sizes 2-3; catalogues are complete universes up to 64/256 functions, structured family beyond; RANDOM choice values 0..2 cover all residues because at most 3 inversions are pending',
    design_ref='DESIGN.md 4/C13',
 ),
 'C02': dict(
    level=MC, engines=[('rel', 'eng_hist')],
    technique='bounded exhaustive enumeration of all API histories over a node-creating alphabet up to a depth bound, each executed on a fresh instance of the real library under every storage/memory-manager/deletion policy of the menu, with a whole-forest structural audit (A1-A10, A14) at the quiescent point',
    rule='every history (sequence of alphabet symbols: BUILD by harness builder / minterm collection / createConstant / createEdgeForVar with every terms pattern, every binary/unary operation of the kind, copy through a second forest, RELEASE, CLEAR) up to the depth bound x every policy configuration; non-trivial = history of length >= 2; distinct by (history, configuration)',
    bounds={'quick': '23 forest kinds (8 set, 15 relation) on S4 (sets) / S3 (relations), alphabet ~50 symbols, depth 3, 6 covering policy combinations',
            'thorough': 'adds S5, S7 (sets) and S4 (relations), catalogue 8, all 36 policy combinations'},
    text='Exhaustive over histories to the depth bound and over the policy menu; after every history every active node of every forest is audited against all reduction-rule, normalisation, hashing, unique-table and counting invariants, and register values are compared with reference tables. The same audit also runs inside every other check. Variable reordering + audit is explored by the C13 engine (same auditor).',
    note='bounded: depth 3, tiny domains; node-creating paths limited to the alphabet; reorderings audited in C13',
    design_ref='DESIGN.md 4/C02',
 ),
 'C06': dict(
    level=MC, engines=[('rel', 'eng_hist'), ('asan', 'eng_hist')],
    technique='bounded exhaustive enumeration of all API histories (constructions, operations incl. image/reachability/saturation, edge copy/assign/self-assign/release, cache clears, reference-count width macros, churn, forest destruction) up to a depth bound on the real library (release and ASan builds), with an exact recount of every reference and cache count and a leak probe after every history',
    rule='every history over the alphabet up to the depth bound per (kind, shape, policy); oracle = A11 exact incoming-count recount (parents + registered dd_edges + nodes under construction), A12 cache recount, A13, register read-back, then release-everything leak probe (every surviving node must be reachable from a still-registered edge) and rebuild of the catalogue. non-trivial = length >= 2',
    bounds={'quick': '5 kinds + 4 relation scenarios x 5 policies (optimistic, pessimistic, never, sparse+grid+pessimistic, full+heap), alphabet 50-60 symbols incl. DUP(254..65537) and CHURNUP(600): depth 3 for optimistic/pessimistic on MT bool sets, MT bool identity relations and the saturation scenario, depth 2 elsewhere; ASan build depth 2 on those',
            'thorough': 'depth 3: MT bool sets and MT bool identity relations under all 5 policies, MT int / EV+ sets and EV* relations under optimistic and pessimistic, the relation (image/reachability/saturation) scenario under optimistic/pessimistic; depth 4 on identity relations (optimistic, four-function catalogue); ASan depth 3 on the deep families (sized from a measured run: depth 4 on every deep family needed ~80 CPU-hours)'},
    text='Exhaustive over histories to the depth bound; exact reference and cache recount of every forest after every history, leak probe, and an ASan build for use of reclaimed node memory.',
    note='bounded: depth 3/4 with macro symbols for counter widths and table growth; error paths excluded (C16)',
    design_ref='DESIGN.md 4/C06',
 ),
 'C07': dict(
    level=MC, engines=[('rel', 'eng_hist')],
    technique='bounded exhaustive enumeration of all API histories over BUILDOP / RELEASE / CLEAR / STALES / CLEARALL / WARM(600) / CHURN symbols up to a depth bound, each executed under every compute-table configuration (4 styles x 3 stale policies x sizes, optional compression) on the real library, with reference tables, a cross-configuration differential and a cache-count recount after every primitive call',
    rule='every history up to the depth bound x every compute-table configuration; after every symbol: A11 + A12 (cache count of every handle equals the number of entries naming it; no entry names a free handle) and register read-back; at the end full audit and identical observables (tables, node/edge counts, DAG signatures) across all configurations. non-trivial = length >= 2',
    bounds={'quick': '3 scenarios x 2 deletion policies: depth 2 under 12 CT configurations (4 styles x 3 stale policies, size 1024) + depth 3 under the default configuration; alphabet ~90 symbols',
            'thorough': 'depth 2 under 72 configurations (4 styles x 3 stale x 3 sizes x compression on/off) + depth 3 under the 12 configurations of the quick tier (depth 3 x 72 was measured at ~110 CPU-hours and is not offered); the harness asserts after every initialisation that the requested configuration is the one in force'},
    text='Exhaustive over histories to the depth bound and the CT configuration menu; results are compared with CT-independent reference tables and across configurations, and cache counts are recounted after every primitive call.',
    note='bounded: depth 2-3 with WARM(600) macro forcing > 512 live entries (table resize/GC); maxSize values 1024, 4096, 2^24',
    design_ref='DESIGN.md 4/C07',
 ),
 'C12': dict(
    level=MC, engines=[('rel', 'eng_hist')],
    technique='bounded exhaustive enumeration of all API histories up to a depth bound, each executed under all 36 storage x memory-manager x deletion policy combinations on the real library and compared (differential) on register tables, node/edge counts and handle-abstracted DAG signatures, plus the full audit in each configuration',
    rule='every history over {BUILD, OP, copy-through-forest, RELEASE, CLEAR, CHURNUP(600), CHURNDOWN, CHURNUP(20)} up to the depth bound x 36 policy combinations; non-trivial = length >= 2',
    bounds={'quick': '5 kinds (MT int set Q, MT bool relation I, EV+ set F, EV* relation F, MT bool set F) on S7/S3, depth 2, 36 policies; plus depth 3 over a four-function catalogue for the EV* relation kind',
            'thorough': 'depth 3, catalogue 8 (6 kind/shape pairs)'},
    text='Exhaustive over histories to the depth bound x all 36 policy combinations; observables must be identical across policies and equal to the reference tables; every configuration passes the audit.',
    note='bounded: depth 2/3; active-node totals are not compared across deletion policies (they legitimately differ)',
    design_ref='DESIGN.md 4/C12',
 ),
 'C15': dict(
    level=EX, engines=[('rel', 'eng_c15')],
    technique='bounded exhaustive enumeration of every boolean set of each shape through CONVERT_TO_INDEX_SET on the real library, compared with the rank function; getElement for every index in [-2, n+2]; stored cardinalities recounted',
    rule='every subset of the domain (2^points sets) per (shape, source rule, index rule, policy), two passes (forward; reverse after all sources were released and rebuilt with the conversion cache warm); evaluate + independent walker at every point, getElement(i) for i in [-2,n+2], root cardinality, A14 on every index node. non-trivial = 1 < |set| < points',
    bounds={'quick': 'S1-S7 complete (up to 4096 sets) x source F/Q x index F/Q, S8 (65536 sets) into F', 'thorough': 'adds S8 all combinations, S9, S11, S12, 3 policies'},
    text='Exhaustive over all subsets of the stated shapes.',
    note='bounded: <= 16 points per domain',
    design_ref='DESIGN.md 4/C15',
 ),
 'C18': dict(
    level=MC, engines=[('rel', 'eng_c18'), ('asan', 'eng_c18')],
    technique='bounded exhaustive enumeration of all request/recycle sequences up to a depth bound on a bare memory manager of each style and granularity (real code, release and ASan builds), checked after every call against an interval + sentinel-pattern allocator model',
    rule='every enabled sequence of request(size in the size menu) / recycle(j-th live chunk) of the stated length (all shorter ones are prefixes), executed twice in a row on one manager (second round after everything was recycled); after every call: returned size >= requested, handle valid, byte intervals of live chunks pairwise disjoint, every byte of every live chunk unchanged (pattern with MSB set in interior slots). non-trivial = every sequence; distinct by sequence string',
    bounds={'quick': '5 styles x granularities {4,8,2}, 6 sizes, <= 4 live chunks, depth 6 (ASan 5)', 'thorough': '9 sizes, <= 5 live chunks, depth 7 (ASan 6)'},
    text='Exhaustive over request/recycle sequences to the depth bound for all five styles.',
    note='bounded: depth 6/7, chunk sizes up to 40 slots, at most 4/5 live chunks',
    design_ref='DESIGN.md 4/C18',
 ),
 'C19': dict(
    level=EX, engines=[('rel', 'eng_c19')],
    technique='exhaustive loops over the whole value spaces (all 2^31 integer terminals, all 2^32 float bit patterns) through the real encode/decode code, plus forest-level boundary sets',
    rule='thorough: every integer in [intMin,intMax] and every non-NaN float bit pattern; quick: boundary regions (+-2^20 around intMin, 0, intMax; float exponents 0,1,127,128,254,255 complete) and a fixed stride-257 sweep of the rest; always: 2064 out-of-range integers, forest-level interface (handleForValue/getValueFromHandle/getEdgeForValue/getValueForEdge/createConstant/evaluate/stored below a node) on boundary sets for MT int/real/bool, EV+ (incl. +infinity) and EV*',
    bounds={'quick': 'boundary regions + stride 257 (not exhaustive)', 'thorough': 'all 2^31 integers and all 2^32 float patterns'},
    text='Thorough tier is exhaustive over the entire terminal value space; quick tier is a deterministic boundary + stride sweep.',
    note='quick is not exhaustive (stated in evidence); denormal +-2^-149 decoding to zero with a non-zero handle is an observation, not checked',
    design_ref='DESIGN.md 4/C19',
    exhaustive={'quick': False, 'thorough': True},
 ),
 'C05': dict(
    level=EX, engines=[('rel', 'eng_c05')],
    technique='bounded exhaustive enumeration of all operand pairs x 14 binary operations x all (a,b,c) reduction-rule triples (same-object and all-distinct forest assignments) on the real library, compared with exact scalar tables; every pair with an invalid scalar case must raise the documented error; unary maps and range queries over whole universes',
    rule='every ordered pair of functions of the universe |V|^points (or U x B and B x U beyond the cap) x {PLUS, MINUS, MULTIPLY, DIVIDE, MODULO, MAXIMUM, MINIMUM, DIST_MIN, EQUAL, NOT_EQUAL, LESS_THAN, LESS_THAN_EQUAL, GREATER_THAN, GREATER_THAN_EQUAL} x rule triples x comparison result in boolean and operand-typed forests; error part: pairs whose divisor has a zero / whose subtrahend has +infinity must raise DIVIDE_BY_ZERO / SUBTRACT_INFINITY; unary: DIST_INC, three user-defined maps, MAX_RANGE/MIN_RANGE over every function x rule pairs. non-trivial = non-constant result; distinct by (op, forests, a, b)',
    bounds={'quick': 'MT int, MT real, EV+ sets S1-S2 all pairs (16, 64 functions), S3 via U x B0 and B0 x U, S4 via B0 x B0; MT int/real, EV+, EV* relations S1 via B0 x B0, identity-reduced relations S3 via B0 x B0 (every 8th pair) and S6 via event functions x unions of two events (every 4th pair); in-place (aliasing) variants of every case',
            'thorough': 'sets S3 all pairs (256 functions), S4 via B0, S6 via B0 x B0; relations S1 all pairs (256 functions), S2 via B0 x B0, S3 via B0 x B0 (every 2nd pair), S6 (two-value alphabets) via event functions x unions of two events and B0 x B0; second value alphabets; every case also with the result edge aliasing operand a, operand b, and both operands one edge object'},
    text='Exhaustive over the stated operand universes, operations and rule triples; exact scalar oracle; documented errors required for invalid scalar cases.',
    note='bounded: 1-3 variables of size 2-3, 4-value alphabets; EV+ multiply/divide with +infinity operands are outside the documented domain and skipped (counted); known findings KF-C05-1..5',
    design_ref='DESIGN.md 4/C05',
 ),
 'C08': dict(
    level=EX, engines=[('rel', 'eng_rel')],
    technique='bounded exhaustive enumeration of all (initial set, transition relation) pairs over tiny domains x 6 algorithm/direction pairs x relation and set reduction rules on the real library, inside one warm instance with alternating relations, compared with an explicit BFS closure / shortest-path model',
    rule='every transition relation of the universe 2^(points^2) (or the structured family B) x every initial set (all subsets, or a fixed covering menu for larger products) x {TRAD_FS, TRAD_NOFS, SATUR} x {forward, backward} x relation rule {F,Q,I} x set rule {F,Q}; result must be the identical canonical edge of the reachable set; every third case also runs saturation in a second set forest sharing the relation forest; distance variants (EV+ 0/+inf and MT int 0/-1) against BFS distances and equal across algorithms. non-trivial = reachable set differs from the initial set',
    bounds={'quick': 'boolean: S1 (16 relations), S2 (512) complete x all initial sets; S3 (65536) and S4 via the structured family; distances: S1, S2 complete, S3 via B0; S6 (three variables): identity-reduced relations that are unions of two events x all 256 initial sets; sizes (3,4): background counter + every set of <= 4 guarded events from a catalogue of 144, EV+ distance and boolean saturation, both directions',
            'thorough': 'S3 complete (65536 relations x 16 initial sets), S4 via B, S6 via B0 and via unions of two events x all 256 initial sets (all relation rules), distances on S6; guarded events on sizes (3,4) for all relation rules'},
    text='Exhaustive over the stated relation universes and initial sets; all algorithms must return the identical canonical edge of the explicit closure.',
    note='bounded: 1-3 variables of size 2-3; MT int saturation known finding KF-C08-1; TRAD_FS is not offered for distance forests (listed as declined)',
    design_ref='DESIGN.md 4/C08',
 ),
 'C09': dict(
    level=EX, engines=[('rel', 'eng_rel')],
    technique='bounded exhaustive enumeration of all (set or vector, relation or matrix) pairs over tiny domains x rules on the real library, compared with the relational / linear-algebra definition',
    rule='PRE_IMAGE and POST_IMAGE over every (set function, relation) pair for boolean sets, EV+ distance sets (values 0,1,3,+inf: 1 + min over neighbours, +inf where none) and MT int distance sets (negative = unreachable); VM_MULTIPLY and MV_MULTIPLY over every (vector, matrix) pair for MT int and MT real; relation rule {F,Q,I} x set rule {F,Q}. non-trivial = non-constant result',
    bounds={'quick': 'images: S1, S2 complete, S3/S4/S5 via the structured family; products: S1 complete (16 vectors x 256 matrices), S2 via B0',
            'thorough': 'images S3 complete, S4 via B; products S3 via B0'},
    text='Exhaustive over the stated operand universes; exact relational oracle.',
    note='bounded: 1-2 variables of size 2-3 (non-uniform shapes S4, S5 included); real sums on dyadic values',
    design_ref='DESIGN.md 4/C09',
 ),
 'C10': dict(
    level=EX, engines=[('rel', 'eng_c10')],
    technique='bounded exhaustive enumeration of every function of the source universe x every ordered pair of forest kinds (8x8 set kinds, 15x15 relation kinds, plus a distinct forest of the same kind) through COPY on the real library, compared with the scalar conversion table; round trip must return the identical edge',
    rule='every function of |V|^points (or the structured family) per source kind x every target kind (values the target cannot represent are skipped and counted) ; evaluate + independent walker at every point; canonical edge in the target; when the conversion is injective on the alphabet, copy back must be the identical source edge; audit of the target forest. non-trivial = non-constant source',
    bounds={'quick': 'sets S1-S3 complete (up to 256 functions), S4 complete for boolean / family otherwise; relations S1 complete (256 functions), S2 complete for boolean / B0 otherwise',
            'thorough': 'adds sets S4 complete, S5; relations S3, S4 via B0'},
    text='Exhaustive over the stated source universes and all ordered kind pairs.',
    note='bounded: 1-2 variables; +infinity only copied to EV+ targets; known finding KF-C10-1',
    design_ref='DESIGN.md 4/C10',
 ),
 'C03': dict(
    level=EX, engines=[('rel', 'eng_c03')],
    technique='bounded exhaustive enumeration of every single minterm pattern (fixed / DONT_CARE / DONT_CHANGE at every position) x value x default, every multiset of 2 (and 3) minterms x {max, min} x every admissible default x every rotation of the insertion order, every constant, and every variable edge (all terms vectors), executed on the real library and compared with the definition',
    rule='patterns = product over variables of ({0..b-1} + DONT_CARE) for sets, ({0..b-1,DC} x {0..b-1,DC,DONT_CHANGE}) for relations; minterms = patterns x value alphabet; (a) every minterm x every default through minterm::buildFunction; (b) every multiset of n minterms (n=2, and n=3 on the smallest shapes) through one reused minterm_coll, buildFunctionMax and buildFunctionMin, defaults restricted to the documented precondition, all rotations; (c) createConstant for every value; (d) createEdgeForVar for every variable, primed/unprimed, every terms vector over V and nullptr. Oracle: reference table from the definition, evaluate + walker, canonical edge. non-trivial = non-constant expected table',
    bounds={'quick': 'all 8 set kinds on S1-S5 (triples on S1, S2), all 15 relation kinds on S1 (triples), S2 (pairs, 2 values), S3 (single minterms, 144 patterns x 4 values)',
            'thorough': 'triples on all set shapes, S6, S7; relation S2 pairs with 4 values, S3 pairs with 2 values, S4 singles'},
    text='Exhaustive over the stated pattern, value, default and multiset menus.',
    note='bounded: 1-3 variables of size 2-3; collections of at most 3 minterms',
    design_ref='DESIGN.md 4/C03',
 ),
 'C11': dict(
    level=EX, engines=[('rel', 'eng_c11')],
    technique='bounded exhaustive enumeration of every function of the universe x every mask (free / fixed / unchanged at every position) through dd_edge::iterator on the real library, compared with the sorted reference list; CARDINALITY in three result types and node/edge counts against a harness BFS',
    rule='every function of |V|^points (or the structured family) per kind x every mask: the visited sequence (assignment and value) must equal the lexicographically sorted list of matching non-default assignments exactly (no duplicate, none missing, same order, correct values, iterator ends); one iterator object is restarted for every (edge, mask); pre- and post-increment alternate; CARDINALITY into long, double and mpz; getNodeCount / getEdgeCount(false/true) against distinct reachable nodes/edges. non-trivial = more than one visited assignment',
    bounds={'quick': 'sets S1-S3 complete, S4-S6 complete for boolean / family otherwise; relations S1 complete, S2 complete for boolean / B0, S3 via B0; mask menu thinned deterministically when functions x masks > 3e6',
            'thorough': 'adds S7 boolean sets, boolean relations S3 complete (65536 functions), S4 relations via B0'},
    text='Exhaustive over the stated function universes and mask menus.',
    note='bounded: <= 16 points per set domain; getEdgeCount is accepted with or without counting the root edge',
    design_ref='DESIGN.md 4/C11',
 ),
 'C14': dict(
    level=EX, engines=[('rel', 'eng_c14')],
    technique='bounded exhaustive enumeration of root lists x writer storage flag x reader storage flag x target forest through mdd_writer / mdd_reader over string streams on the real library; functions compared with tables, canonicity and an exact reference/cache recount of the receiving forest after the reader object is destroyed',
    rule='root lists: () , (f), (f,f), (f,next f) for every function f of the universe (or family), all ordered pairs for universes <= 16; x 3x3 storage flags x target {same forest, second forest of the same kind, forest created by the reader from the file (only when the writer uses the default reduction rule, which the file format does not record)}. non-trivial = non-constant first root',
    bounds={'quick': 'all 8 set kinds on S1-S4, all 15 relation kinds on S1, S2', 'thorough': 'adds relations S3'},
    text='Exhaustive over the stated root lists, storage-flag pairs and targets.',
    note='bounded: at most 2 roots per file; real values compared with the 1e-5 tolerance of MT real forests',
    design_ref='DESIGN.md 4/C14',
 ),
 'C16': dict(
    level=MC, engines=[('rel', 'eng_c16'), ('asan', 'eng_c16')],
    technique='bounded exhaustive enumeration of histories [legal prefix] misuse-call [same call again] [legal suffix] over every operation of the catalogue x every misuse class, executed on the real library (release and ASan builds); the call must raise MEDDLY::error with a documented code, all held edges and forests are re-read and audited afterwards',
    rule='misuse menu: for each of 22 binary and 4 unary operations: operand(s) from another domain, result attached to a forest of another domain, result edge not attached, set where a relation is required (and vice versa), multi-terminal with EV+ operand; value misuse: wrong value type / out-of-range integers (6 magnitudes) through createConstant, minterm values and createEdgeForVar terms, foreign-domain minterms and collections, zero divisor / +infinity subtrahend met at each of 6 points, exhausted / default / empty iterators, edges whose forest was destroyed as operand, result, in evaluate, COPY, CARDINALITY; x 3 history shapes. non-trivial = every case',
    bounds={'quick': '218 misuse calls x 3 history shapes, release and ASan', 'thorough': 'same'},
    text='Exhaustive over the misuse menu x history shapes; error type and code, state integrity (every held edge re-read, every forest audited, references never over-released) and usability afterwards.',
    note='bounded: the misuse menu is finite and hand-written from error.h and the throw sites; arithmetic on boolean forests and set algebra on integer forests are accepted by the library and not counted as misuse',
    design_ref='DESIGN.md 4/C16',
 ),
 'C17': dict(
    level=MC, engines=[('rel', 'eng_c17'), ('asan', 'eng_c17')],
    technique='bounded exhaustive enumeration of all lifecycle histories (INIT, CLEANUP, NEWDOM, NEWFOREST, BUILD, cross-forest operation, CLEAR, ITER, DESTROYFOREST, DESTROYDOM, USEDETACHED in 6 ways) up to a depth bound with canonicalised creation slots, executed on the real library (release and ASan builds), model-checked after every step (edges, forests, ids, and the operation registry: no registered operation mentions a destroyed forest)',
    rule='every enabled history of the stated length (<= 2 domains, 3 forests, 3 registers alive); after every step: edges of destroyed forests report no forest, surviving registers read back, surviving forests pass the full audit, forests of other domains keep their fingerprint across a destruction, forest ids strictly increase within one initialisation, using a detached edge raises a documented error (copying it is legal and yields an inert edge; iterating it yields nothing); held objects are destroyed before or after cleanup alternately. non-trivial = every history',
    bounds={'quick': 'depth 7 (release), depth 6 (ASan); depth 5 (ASan 4) continuations of a populated state (two forests of one domain, an edge in each)', 'thorough': 'depth 9 (release), depth 7 (ASan); depth 6 (ASan 5) from the populated state'},
    text='Exhaustive over lifecycle histories to the depth bound.',
    note='bounded: depth 7/9; 2 shapes, 3 forest kinds',
    design_ref='DESIGN.md 4/C17',
 ),
 'C20': dict(
    level=EX, engines=[('rel', 'eng_c20')],
    technique='bounded exhaustive enumeration of event lists x initial sets x {by events, by levels x 5 splitting options} through pregen_relation + SATURATION_FORWARD on the real library, compared with the explicit closure under the union of the events and with REACHABLE_TRAD_NOFS on the union relation',
    rule='event catalogue: every local relation on one variable (all 15 non-empty ones for size 2; the 1-point family + 4 more for size 3) x identity elsewhere, and single transitions on every pair of variables (thinned 1/3) x identity elsewhere; every event list of length 1 and 2 (ordered, with repetition) [3 in thorough on S3]; every initial set (all subsets <= 16 states, a fixed menu of 11 beyond); identity-reduced relation forest, set forests F and Q; each (list, mode) on a fresh library instance. non-trivial = reachable set differs from the initial set',
    bounds={'quick': 'S3, S4 lists of length <= 2; S6 length 1; S6 alphabet t2 (all single transitions on <= 2 variables, ordered pairs) x every cube as initial set; S6 alphabet pid (sets of <= 4 guarded self-loop events); S6 alphabet u2 (events of two transitions, triples, thinned)', 'thorough': 'S6 length 2, S3 length 3, S7 length 1; t2 x all 256 initial sets, t2 on S7 x cubes; pid on S7 (sets of <= 3); u2 unthinned partition'},
    text='Exhaustive over the stated event lists, initial sets and partitioning modes.',
    note='bounded: 2-3 variables; relation forest identity-reduced only (the semantics pregen_relation assumes)',
    design_ref='DESIGN.md 4/C20',
 ),
}

NOT_YET = {}
for i in range(1, 21):
    pid = 'C%02d' % i
    if pid not in PROPS:
        NOT_YET[pid] = 'check not built yet in this round (planned, see DESIGN.md section 4); model checking applies'


def manifest():
    checks = []
    for pid in sorted(PROPS):
        p = PROPS[pid]
        checks.append({
            'property_id': pid,
            'quick_cmd': './check %s quick' % pid,
            'thorough_cmd': './check %s thorough' % pid,
            'evidence_file': 'evidence/%s.json' % pid,
            'replay_cmd_template': './check replay {path}',
            'engine': '+'.join(sorted(set(e for v, e in p['engines']))),
            'level_claimed': {'category': p['level'], 'text': p['text'], 'design_ref': p.get('design_ref', 'DESIGN.md 4')},
            'level_note': p['note'],
            'technique': p['technique'],
        })
    engines = {}
    for pid, p in PROPS.items():
        for v, e in p['engines']:
            engines.setdefault(e, set()).add(pid)
    return {
        'version': 1,
        'setup_cmd': './check build rel asan',
        'hooks': {
            'guard': 'MEDDLY_VERIF',
            'enable': 'no source hooks: harness translation units are compiled with -DMEDDLY_VERIF -fno-access-control and linked against the library built unmodified from /repo/src',
            'baseline_off_cmd': 'make -C /repo -k check -j8',
            'source_commits': [],
            'add_only': True,
        },
        'engines': [{'name': e, 'path': 'harness/%s.cc' % e, 'serves_properties': sorted(ps),
                     'kind_free_text': 'bounded exhaustive explorer over the real library (explicit-state, stateless re-execution)'} for e, ps in sorted(engines.items())],
        'checks': checks,
        'not_applicable': [{'property_id': k, 'reason': v} for k, v in sorted(NOT_YET.items())],
        'notes': 'All checks: ./check <id> <tier>. Known genuine defects are listed in known_findings.json. See DESIGN.md.',
    }
