# Single table from which /verif/check and MANIFEST.json are derived.
import json, os

VERIF = os.path.dirname(os.path.abspath(__file__))

COMMON_ASSUMPTIONS = [
    "small-scope bound: domains of 1-4 variables of size 2-3(4); values from the stated alphabets",
    "reference models (truth tables, BFS closure, interval allocator, scalar arithmetic) in the harness are trusted",
    "g++ 12, libstdc++, glibc, ASan trusted; private library state is read (never written) via -fno-access-control in harness TUs only",
]

MC = 'model_checking'
EX = 'exploration'

PROPS = {
 'C01': dict(
    level=MC, engines=[('rel', 'eng_c01')],
    title='canonicity',
    technique='bounded exhaustive enumeration of whole function universes and of all API histories to a depth bound, executed on the real library, compared with truth tables',
    rule='E1: every function of the universe |V|^points per (kind, shape, storage flag), each rebuilt by every other path (3 minterm-collection orders, accumulation, copy through every other kind and back, algebraic identities) and required to be the identical edge; E2: every history over the alphabet up to the depth bound, each on a fresh library instance. non-trivial = non-constant function (E1) / history of length >= 2 (E2); distinct by function index / history string',
    bounds={'quick': 'universes <= 4096 functions (sets S1-S6, relations S1-S3 where they fit), histories depth 3 over ~50 symbols, 8 kinds x {optimistic,pessimistic}',
            'thorough': 'universes <= 65536 functions (sets S1-S8, relations S1-S3), histories depth 4'},
    text='Exhaustive over the stated universes and history depth: injectivity of edge identity and identity of every rebuild path, on the real library with unique-table/handle-recycling state varied by histories.',
    note='bounded: tiny domains, alphabets of 2-4 values, history depth 3/4; harness builder and walker trusted',
    design_ref='DESIGN.md 4/C01',
 ),
 'C04': dict(
    level=EX, engines=[('rel', 'eng_c04')],
    technique='bounded exhaustive enumeration of all operand pairs x all forest-assignment patterns on the real library, compared with bitwise truth tables',
    rule='every ordered pair of boolean functions of the shape (whole universe, or U x B and B x U with the structured family B where stated) x {UNION, INTERSECTION, DIFFERENCE} x every forest-assignment pattern (rules of a, b, c and which of them are the same forest object; 22 patterns for sets, 57 for relations) + result-edge-aliases-operand variants; COMPLEMENT over U x rule pairs; CROSS over U x U into every relation rule. non-trivial = result is neither an operand nor a constant; distinct by (op, pattern, a, b)',
    bounds={'quick': 'sets S1-S5 all pairs, S6 via B; relations S1 all pairs, S2 via B, S3 via B1; cross S1-S4',
            'thorough': 'adds S6 and relation S2 all pairs, S3 via B, S7/S8 via B, reverse-order and cache-cleared-before-each-call sweeps'},
    text='Exhaustive over the stated operand universes and forest-assignment patterns, inside warm library instances; result must be the identical canonical edge of the pointwise table; operands re-read afterwards.',
    note='bounded: 1-4 variables of size 2-3; beyond 2^16 pairs only U x B / B x U; default policies',
    design_ref='DESIGN.md 4/C04',
 ),
}

NOT_YET = {}
for i in range(1, 21):
    pid = 'C%02d' % i
    if pid not in PROPS:
        NOT_YET[pid] = 'check not built yet in this round (planned, see DESIGN.md section 4); model checking applies'


def manifest():
    checks = []
    for pid in sorted(PROPS):
        p = PROPS[pid]
        checks.append({
            'property_id': pid,
            'quick_cmd': './check %s quick' % pid,
            'thorough_cmd': './check %s thorough' % pid,
            'evidence_file': 'evidence/%s.json' % pid,
            'replay_cmd_template': './check replay {path}',
            'engine': '+'.join(sorted(set(e for v, e in p['engines']))),
            'level_claimed': {'category': p['level'], 'text': p['text'], 'design_ref': p.get('design_ref', 'DESIGN.md 4')},
            'level_note': p['note'],
            'technique': p['technique'],
        })
    engines = {}
    for pid, p in PROPS.items():
        for v, e in p['engines']:
            engines.setdefault(e, set()).add(pid)
    return {
        'version': 1,
        'setup_cmd': './check build rel asan',
        'hooks': {
            'guard': 'MEDDLY_VERIF',
            'enable': 'no source hooks: harness translation units are compiled with -DMEDDLY_VERIF -fno-access-control and linked against the library built unmodified from /repo/src',
            'baseline_off_cmd': 'make -C /repo -k check -j8',
            'source_commits': [],
            'add_only': True,
        },
        'engines': [{'name': e, 'path': 'harness/%s.cc' % e, 'serves_properties': sorted(ps),
                     'kind_free_text': 'bounded exhaustive explorer over the real library (explicit-state, stateless re-execution)'} for e, ps in sorted(engines.items())],
        'checks': checks,
        'not_applicable': [{'property_id': k, 'reason': v} for k, v in sorted(NOT_YET.items())],
        'notes': 'All checks: ./check <id> <tier>. Known genuine defects are listed in known_findings.json. See DESIGN.md.',
    }
