#!/bin/sh
# validates MANIFEST.json and evidence/*.json against the schemas (uses the tooling venv)
python3-vt - <<'PY'
import json,jsonschema,glob,sys
ok=True
try:
    jsonschema.validate(json.load(open('/verif/MANIFEST.json')), json.load(open('/root/.vp/MANIFEST.schema.json')))
except Exception as e:
    ok=False; print('MANIFEST invalid:', str(e)[:300])
es=json.load(open('/root/.vp/EVIDENCE.schema.json'))
for f in sorted(glob.glob('/verif/evidence/*.json')):
    try: jsonschema.validate(json.load(open(f)), es)
    except Exception as e:
        ok=False; print(f,'invalid:',str(e)[:300])
print('schemas ok' if ok else 'SCHEMA PROBLEMS')
sys.exit(0 if ok else 1)
PY
