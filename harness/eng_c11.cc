// C11 enumeration and counting: every function x every mask through dd_edge::iterator (begin, ++, restart),
// CARDINALITY into long / double / mpz, getNodeCount / getEdgeCount against a harness BFS.
#include "common.h"
#include <gmp.h>

static void list_units(const std::string& tier)
{
    bool th = tier=="thorough";
    for (const Kind& k : all_set_kinds()) {
        for (const char* sh : {"S1","S2","S3"}) printf("kind=%s,shape=%s,sel=all\n", k.name().c_str(), sh);
        printf("kind=%s,shape=S4,sel=%s\n", k.name().c_str(), (k.range=='b' || th) ? "all" : "fam");
        printf("kind=%s,shape=S5,sel=%s\n", k.name().c_str(), (k.range=='b') ? "all" : "fam0");
        if (k.range=='b') printf("kind=%s,shape=S6,sel=all\n", k.name().c_str());
        if (th && k.range=='b') printf("kind=%s,shape=S7,sel=all\n", k.name().c_str());
    }
    for (const Kind& k : all_rel_kinds()) {
        printf("kind=%s,shape=S1,sel=all\n", k.name().c_str());
        printf("kind=%s,shape=S2,sel=%s\n", k.name().c_str(), k.range=='b' ? "all" : "fam0");
        printf("kind=%s,shape=S3,sel=%s\n", k.name().c_str(), (k.range=='b' && th) ? "all" : "fam0");
        if (th) printf("kind=%s,shape=S4,sel=fam0\n", k.name().c_str());
    }
}

struct Mask { std::vector<int> fr, to; };   // DONT_CARE = free

static std::string g_kind, g_shape;
static std::vector<std::string> g_masks;
static void fmt_case(char* buf, size_t n, const long* a)
{
    snprintf(buf,n,"%s kind=%s shape=%s f=%ld mask=%s (function number = base-|V| digits of the truth table, point 0 least significant; mask positions top variable first, x = free, i = unchanged)", (const char*)a[0], g_kind.c_str(), g_shape.c_str(), a[1], a[2]>=0 ? g_masks[a[2]].c_str() : "-");
}

static void run_unit(const std::map<std::string,std::string>& spec)
{
    Kind k = kind_parse(spec_get(spec,"kind"));
    Shape s = shape_by_name(spec_get(spec,"shape"));
    std::string sel = spec_get(spec,"sel","all");
    g_kind=k.name(); g_shape=s.name;
    std::vector<double> V = alphabet(k);
    long P = s.points(k.rel);
    unsigned long U = ipow(V.size(),P);
    lib_init();
    domain* d = make_domain(s);
    forest* F = make_forest(d,k,Pol());
    if (!F) { lib_done(); return; }
    std::vector<unsigned long> idx;
    if (sel=="all" && U<=65536) for (unsigned long i=0;i<U;i++) idx.push_back(i); else idx = structured_family(k,s,V, sel=="fam0"?1:2, true);
    // masks: sets: each position free or fixed to a value; relations: (free|fixed) x (free|fixed|DONT_CHANGE)
    std::vector<Mask> masks;
    {
        std::vector<std::vector<std::pair<int,int>>> opts(s.K()+1);
        for (int v=1; v<=s.K(); v++) { int b=s.b[v-1]; for (int f=-1; f<b; f++) { if (!k.rel) { opts[v].push_back({f,0}); continue; } for (int t=-2; t<b; t++) opts[v].push_back({f,t}); } }
        std::vector<size_t> ix(s.K()+1,0);
        for (;;) {
            Mask m; m.fr.assign(s.K()+1,0); m.to.assign(s.K()+1,0);
            for (int v=1; v<=s.K(); v++) { m.fr[v]=opts[v][ix[v]].first; m.to[v]=opts[v][ix[v]].second; }
            masks.push_back(m);
            int v=1; while (v<=s.K() && ++ix[v]==opts[v].size()) { ix[v]=0; ++v; }
            if (v>s.K()) break;
        }
    }
    // thin the mask menu for big products (deterministic: all masks with at most one fixed position + every 7th other)
    if (masks.size()*idx.size() > 3000000) { std::vector<Mask> t; size_t c=0; for (auto& m : masks) { int fixed=0; for (int v=1;v<=s.K();v++) { if (m.fr[v]!=-1) ++fixed; if (k.rel && m.to[v]!=-1) ++fixed; } if (fixed<=1 || (c++ % 7)==0) t.push_back(m); } masks=t; }
    for (auto& m : masks) { std::string z; for (int v=s.K(); v>=1; v--) { auto one=[&](int q){ return q==-1?std::string("x"):q==-2?std::string("i"):std::to_string(q); }; z+=one(m.fr[v]); if (k.rel) { z+=">"; z+=one(m.to[v]); } if (v>1) z+=","; } g_masks.push_back(z); }
    ctx.counters["functions"]=(long)idx.size(); ctx.counters["masks"]=(long)masks.size();

    // lexicographic order of points: top variable most significant, unprimed before primed
    std::vector<long> lex(P);
    { std::vector<std::pair<std::vector<int>,long>> keyed; int x[16], xp[16];
      for (long p=0;p<P;p++) { std::vector<int> key; if (k.rel) { decode_rel(s,p,x,xp); for (int v=s.K();v>=1;v--) { key.push_back(x[v]); key.push_back(xp[v]); } } else { decode_set(s,p,x); for (int v=s.K();v>=1;v--) key.push_back(x[v]); } keyed.push_back({key,p}); }
      std::sort(keyed.begin(), keyed.end()); for (long i=0;i<P;i++) lex[i]=keyed[i].second; }
    const double dflt = k.dflt();
    Builder B(F,k,s);
    dd_edge e(F), other(F);
    dd_edge::iterator* reuse = nullptr;    // one iterator object restarted on every edge/mask (object reuse)
    minterm mm(F);
    int x[16], xp[16];
    bool maskDeclined=false;
    for (unsigned long fi : idx) {
        if (ctx.stop) break;
        Table t = tab_from_index(fi,P,V);
        B.build(t, e);
        // counting
        if (case_lazy(fmt_case, (long)"CARDINALITY+counts", (long)fi, -1)) {
            long want=0; for (double v : t) if (v!=dflt) ++want;
            try {
                long cl=-1; apply(CARDINALITY, e, cl); if (cl!=want) violation("wrong-cardinality","table [%s]: CARDINALITY(long) = %ld, expected %ld", tab_str(t).c_str(), cl, want);
                double cd=-1; apply(CARDINALITY, e, cd); if (cd!=(double)want) violation("wrong-cardinality","table [%s]: CARDINALITY(double) = %g, expected %ld", tab_str(t).c_str(), cd, want);
                mpz_t z; mpz_init(z); apply(CARDINALITY, e, z); if (mpz_cmp_si(z,want)!=0) violation("wrong-cardinality","table [%s]: CARDINALITY(mpz) = %ld, expected %ld", tab_str(t).c_str(), mpz_get_si(z), want); mpz_clear(z);
            } catch (MEDDLY::error er) { violation("op-error","CARDINALITY threw %s (%s:%u)", er.getName(), er.getFile(), er.getLine()); }
            unsigned long nn, enz, eall; reach_counts(F, e.getNode(), nn, enz, eall);
            if (e.getNodeCount()!=nn) violation("wrong-node-count","table [%s]: getNodeCount() = %lu, %lu distinct nodes are reachable", tab_str(t).c_str(), e.getNodeCount(), nn);
            unsigned long ec0 = e.getEdgeCount(false), ec1 = e.getEdgeCount(true);
            // the root edge itself may or may not be counted; accept both conventions but nothing else
            if (!(ec0==enz || ec0==enz+1)) violation("wrong-edge-count","table [%s]: getEdgeCount(false) = %lu, %lu non-transparent edges are reachable", tab_str(t).c_str(), ec0, enz);
            if (!(ec1==eall || ec1==eall+1)) violation("wrong-edge-count","table [%s]: getEdgeCount(true) = %lu, %lu edges are reachable", tab_str(t).c_str(), ec1, eall);
            if (!tab_is_const(t)) note_nontrivial(hmix(1,fi));
        }
        // enumeration under every mask
        for (size_t mi=0; mi<masks.size(); mi++) {
            const Mask& m = masks[mi];
            if (!case_lazy(fmt_case, (long)"iterate", (long)fi, (long)mi)) continue;
            // reference list
            std::vector<long> ref;
            for (long li=0; li<P; li++) { long p=lex[li]; if (t[p]==dflt) continue; bool ok=true;
                if (k.rel) { decode_rel(s,p,x,xp); for (int v=1;v<=s.K();v++) { if (m.fr[v]>=0 && x[v]!=m.fr[v]) ok=false; if (m.to[v]>=0 && xp[v]!=m.to[v]) ok=false; if (m.to[v]==DONT_CHANGE && xp[v]!=x[v]) ok=false; } }
                else { decode_set(s,p,x); for (int v=1;v<=s.K();v++) if (m.fr[v]>=0 && x[v]!=m.fr[v]) ok=false; }
                if (ok) ref.push_back(p); }
            bool allfree=true; for (int v=1;v<=s.K();v++) { if (m.fr[v]!=-1) allfree=false; if (k.rel && m.to[v]!=-1) allfree=false; }
            try {
                for (int v=1;v<=s.K();v++) { if (k.rel) mm.setVars(v, m.fr[v], m.to[v]); else mm.setVar(v, m.fr[v]); }
                if (!reuse) reuse = new dd_edge::iterator(e, allfree ? nullptr : &mm); else reuse->restart(e, allfree ? nullptr : &mm);
                dd_edge::iterator& it = *reuse;
                size_t pos=0; bool bad=false;
                for (; it; (pos&1) ? ++it : it++) {
                    const minterm& got = *it;
                    long p; if (k.rel) { for (int v=1;v<=s.K();v++) { x[v]=got.from(v); xp[v]=got.to(v); } p=encode_rel(s,x,xp); } else { for (int v=1;v<=s.K();v++) x[v]=got.from(v); p=encode_set(s,x); }
                    if (pos>=ref.size()) { violation("iter-extra","table [%s]: iterator visits more than the %zu expected assignments (extra: point %ld)", tab_str(t).c_str(), ref.size(), p); bad=true; break; }
                    if (p!=ref[pos]) { violation("iter-order-or-member","table [%s]: visit #%zu is point %ld, expected point %ld (lexicographic order of matching non-default assignments)", tab_str(t).c_str(), pos, p, ref[pos]); bad=true; break; }
                    double gv = from_rangeval(got.getValue());
                    if (!val_eq(k,gv,t[p])) { violation("iter-value","table [%s]: at point %ld the iterator reports value %g, the function is %g", tab_str(t).c_str(), p, gv, t[p]); bad=true; break; }
                    ++pos;
                }
                if (!bad && pos!=ref.size()) violation("iter-missing","table [%s]: iterator stops after %zu of %zu expected assignments", tab_str(t).c_str(), pos, ref.size());
            } catch (MEDDLY::error er) {
                bool hasDC=false; for (int v=1;v<=s.K();v++) if (k.rel && m.to[v]==DONT_CHANGE) hasDC=true;
                if (hasDC && (er.getCode()==error::NOT_IMPLEMENTED || er.getCode()==error::INVALID_ARGUMENT)) { if (!maskDeclined) { maskDeclined=true; declined("iterator masks with DONT_CHANGE positions: %s", er.getName()); } ctx.counters["declined_masks"]++; }
                else violation("op-error","iteration threw %s (%s:%u)", er.getName(), er.getFile(), er.getLine());
            }
            if (ref.size()>1) note_nontrivial(hmix(2, fi*masks.size()+mi));
        }
        if (ctx.viol>ctx.maxviol && ctx.only<0 && ctx.upto<0) ctx.stop=true;
    }
    delete reuse;
    e.detach();
    { std::string a = audit_forest(F,k); if (!a.empty()) { lz_fn_reset(); snprintf(ctx.cur,sizeof ctx.cur,"final audit kind=%s shape=%s",k.name().c_str(),s.name.c_str()); violation("audit","%s",a.c_str()); } }
    domain::destroy(d);
    lib_done();
}
int main(int argc, char** argv) { return std_main(argc, argv, list_units, run_unit); }
