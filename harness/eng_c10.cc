// C10 copy between forests: every ordered pair of forest kinds with the same set/relation shape, every function of the
// source universe whose values the target can represent; pointwise scalar conversion; round trip gives the identical edge.
#include "common.h"

static void list_units(const std::string& tier)
{
    bool th = tier=="thorough";
    for (const Kind& k : all_set_kinds()) {
        for (const char* sh : {"S1","S2","S3"}) printf("src=%s,shape=%s,sel=all\n", k.name().c_str(), sh);
        printf("src=%s,shape=S4,sel=%s\n", k.name().c_str(), (th || k.range=='b') ? "all" : "fam");
        if (th) printf("src=%s,shape=S5,sel=%s\n", k.name().c_str(), k.range=='b' ? "all" : "fam");
        // three levels (a skipped middle level): every function when the universe is small enough, else the structured family
        printf("src=%s,shape=S6,sel=%s\n", k.name().c_str(), (th || k.range=='b') ? "all" : "fam");
    }
    for (const Kind& k : all_rel_kinds()) {
        printf("src=%s,shape=S1,sel=all\n", k.name().c_str());
        printf("src=%s,shape=S2,sel=%s\n", k.name().c_str(), k.range=='b' ? "all" : "fam0");
        if (th) printf("src=%s,shape=S3,sel=%s\n", k.name().c_str(), "fam0");
        if (th) printf("src=%s,shape=S4,sel=%s\n", k.name().c_str(), "fam0");
        printf("src=%s,shape=S6,sel=%s\n", k.name().c_str(), "fam0");
    }
}

// documented scalar conversion; returns false if the value is outside what the pair defines
static bool conv(const Kind& from, const Kind& to, double v, double& out)
{
    if (v==INF) { if (!to.isEVp()) return false; out=INF; return true; }
    if (to.range=='b') { out = (v!=0); return true; }
    if (to.range=='i') { out = (double)(long)v; return true; }      // truncation toward zero
    out = v; return true;
}

static std::string g_src, g_shape;
static std::vector<std::string> g_dst;
static void fmt_case(char* buf, size_t n, const long* a)
{
    snprintf(buf,n,"COPY %s -> %s%s shape=%s f=%ld (function number = base-|V| digits of the source truth table, point 0 least significant)", g_src.c_str(), g_dst[a[0]].c_str(), a[1]?" (distinct forest of the same kind)":"", g_shape.c_str(), a[2]);
}

static void run_unit(const std::map<std::string,std::string>& spec)
{
    Kind ks = kind_parse(spec_get(spec,"src"));
    Shape s = shape_by_name(spec_get(spec,"shape"));
    std::string sel = spec_get(spec,"sel","all");
    g_src = ks.name(); g_shape = s.name;
    long P = s.points(ks.rel);
    lib_init();
    domain* d = make_domain(s);
    forest* FS = make_forest(d,ks,Pol());
    if (!FS) { lib_done(); return; }
    std::vector<Kind> targets = ks.rel ? all_rel_kinds() : all_set_kinds();
    // two source alphabets: the kind's own, and (for EV+) one without +infinity so that every target can represent it
    for (int alt=0; alt<2; alt++) {
        std::vector<double> V = alphabet_for(ks,s);            // two values when function numbers over this shape would overflow 64 bits
        if (alt==1) { if (!ks.isEVp()) break; V = {0,1,3,5}; if ((double)P*2 > 64.0) V = {1,3}; }
        unsigned long U = ipow(V.size(),P);
        std::vector<unsigned long> idx;
        if (sel=="all" && U<=65536) for (unsigned long i=0;i<U;i++) idx.push_back(i);
        else idx = structured_family(ks,s,V, sel=="fam0"?1:2, true);
        Builder BS(FS,ks,s);
        ctx.counters["functions"] += (long)idx.size();
        for (size_t ti=0; ti<=targets.size(); ti++) {
            if (ctx.stop) break;
            const bool samekind = ti==targets.size();
            Kind kt = samekind ? ks : targets[ti];
            forest* FT = make_forest(d,kt,Pol());
            if (!FT) continue;
            g_dst.push_back(kt.name()); long di=(long)g_dst.size()-1;
            unary_operation* fwd = get_uop(COPY(),FS,FT,"COPY");
            unary_operation* back = get_uop(COPY(),FT,FS,"COPY(back)");
            if (!fwd) { forest::destroy(FT); continue; }
            // is the conversion (and the way back) injective on this alphabet?
            bool inj = back!=nullptr;
            for (double v : V) { double w,u; if (!conv(ks,kt,v,w) || !conv(kt,ks,w,u) || !(u==v)) inj=false; }
            dd_edge src(FS), dst(FT), rt(FS);
            for (unsigned long i : idx) {
                if (!case_lazy(fmt_case, di, samekind, (long)i)) continue;
                Table t = tab_from_index(i,P,V), want(P); bool ok=true;
                for (long p=0;p<P;p++) if (!conv(ks,kt,t[p],want[p])) ok=false;
                if (!ok) { ctx.counters["skipped_unrepresentable"]++; continue; }
                BS.build(t, src);
                try {
                    fwd->compute(src, dst);
                    std::string err = check_result(dst,kt,s,want,kt.range!='r');
                    if (!err.empty()) {
                        const char* tag = err.compare(0,12,"NONCANONICAL")==0?"noncanonical-result":"wrong-result";
                        if (!ks.isEVp() && kt.isEVp() && ks.rr=='I' && kt.rel) {
                            // class of the known finding: identity-reduced source whose transparent value is 0 (MT, EV*), EV+ relation target; the copy differs from
                            // the expectation only at off-diagonal positions where the source is 0 (zeros implied by identity patterns)
                            Table got; read_eval(dst,kt,s,got); bool only=true; int x[16], xp[16];
                            for (long p=0;p<P;p++) if (!val_eq(kt,got[p],want[p])) { decode_rel(s,p,x,xp); bool od=false; for (int k2=1;k2<=s.K();k2++) if (x[k2]!=xp[k2]) od=true; if (!(od && t[p]==0)) only=false; }
                            if (only) tag = "copy-identity-implicit-zero";
                        }
                        violation(tag,"source [%s]: %s", tab_str(t).c_str(), err.c_str());
                    }
                    else if (inj) {
                        back->compute(dst, rt);
                        if (rt != src) { Table x; read_eval(rt,ks,s,x);
                            const char* tag = tab_eq(ks,x,t)?"roundtrip-noncanonical":"roundtrip-changed";
                            if (!tab_eq(ks,x,t) && !kt.isEVp() && ks.isEVp() && kt.rr=='I' && ks.rel) {
                                // the way back is the known finding (identity-reduced MT source -> edge-valued target): differences only at
                                // off-diagonal positions where the function is 0
                                bool only=true; int xx[16], xp[16];
                                for (long p=0;p<P;p++) if (!val_eq(ks,x[p],t[p])) { decode_rel(s,p,xx,xp); bool od=false; for (int k2=1;k2<=s.K();k2++) if (xx[k2]!=xp[k2]) od=true; if (!(od && t[p]==0)) only=false; }
                                if (only) tag = "copy-identity-implicit-zero";
                            }
                            violation(tag,"source [%s]: copy there and back reads [%s] and is %s", tab_str(t).c_str(), tab_str(x).c_str(), tab_eq(ks,x,t)?"a different edge for the same function":"a different function"); }
                    }
                } catch (MEDDLY::error e) { violation("op-error","source [%s]: COPY threw %s (%s:%u)", tab_str(t).c_str(), e.getName(), e.getFile(), e.getLine()); }
                if (!tab_is_const(t)) note_nontrivial(hmix(hmix(di,alt), i));
                if (ctx.viol>ctx.maxviol && ctx.only<0 && ctx.upto<0) { ctx.stop=true; break; }
            }
            src.detach(); dst.detach(); rt.detach();
            { std::string a = audit_forest(FT,kt); if (!a.empty()) { lz_fn_reset(); snprintf(ctx.cur,sizeof ctx.cur,"COPY %s -> %s shape=%s final audit of the target forest", g_src.c_str(), kt.name().c_str(), s.name.c_str()); violation("audit","%s",a.c_str()); } }
            forest::destroy(FT);
        }
    }
    { std::string a = audit_forest(FS,ks); if (!a.empty()) { lz_fn_reset(); snprintf(ctx.cur,sizeof ctx.cur,"COPY from %s shape=%s final audit of the source forest", g_src.c_str(), s.name.c_str()); violation("audit","%s",a.c_str()); } }
    domain::destroy(d);
    lib_done();
}
int main(int argc, char** argv) { return std_main(argc, argv, list_units, run_unit); }
