// C01 canonicity.  E1 part: whole function universes, every rebuild path.
//                  E2 part: histories with reclaim/reuse (mode=hist).
#include "common.h"

static const long FUNC_CAP_QUICK = 1L<<12, FUNC_CAP_THOROUGH = 1L<<16;

static void list_units(const std::string& tier)
{
    bool th = tier=="thorough";
    std::vector<std::string> setShapes = th ? std::vector<std::string>{"S1","S2","S3","S4","S5","S6","S7","S8"}
                                            : std::vector<std::string>{"S1","S2","S3","S4","S5","S6"};
    std::vector<std::string> relShapes = th ? std::vector<std::string>{"S1","S2","S3"} : std::vector<std::string>{"S1","S2","S3"};
    long cap = th ? FUNC_CAP_THOROUGH : FUNC_CAP_QUICK;
    for (const Kind& k : all_set_kinds()) for (auto& sn : setShapes) for (char st : {'e','f','s'}) {
        Shape s = shape_by_name(sn);
        unsigned long U = ipow(alphabet(k).size(), s.setPoints());
        if (U > (unsigned long)cap) continue;
        if (!th && st!='e' && U>256) continue;
        printf("mode=univ,kind=%s,shape=%s,pol=%cao\n", k.name().c_str(), sn.c_str(), st);
    }
    for (const Kind& k : all_rel_kinds()) for (auto& sn : relShapes) for (char st : {'e','f','s'}) {
        Shape s = shape_by_name(sn);
        unsigned long U = ipow(alphabet(k).size(), s.relPoints());
        if (U > (unsigned long)cap) continue;
        if (!th && st!='e' && U>256) continue;
        printf("mode=univ,kind=%s,shape=%s,pol=%cao\n", k.name().c_str(), sn.c_str(), st);
    }
    // matrix products: MM_MULTIPLY(a,b) must be the very edge the harness builder makes for the product table
    // (operands in a quasi-reduced forest - see DESIGN 0.3 on why - result in a forest of each reduction rule)
    for (const char* rg : {"MTi","MTr"}) for (char rr : {'Q','F','I'})
        for (const char* sn : {"S1","S2","S3","S4"}) for (char st : {'e','f','s'}) {
            if (st!='e' && !th && std::string(sn)=="S4") continue;     // storage-flag variants of the largest shape: thorough only
            printf("mode=mm,kind=R:%s:Q,res=R:%s:%c,shape=%s,pol=%cao\n", rg, rg, rr, sn, st);
        }
    // E2 part
    std::vector<std::string> hk = {"S:MTb:F","S:MTb:Q","S:MTi:F","S:EVpi:F","R:MTb:I","R:MTb:F","R:MTi:Q","R:EVpi:I"};
    for (auto& k : hk) for (const char* pol : {"eao","eap"}) {
        Kind kk = kind_parse(k);
        const char* sh = kk.rel ? "S1" : (kk.range=='b' ? "S2" : "S1");
        int depth = th ? 4 : 3;
        // split by first symbol for parallelism in thorough
        printf("mode=hist,kind=%s,shape=%s,pol=%s,depth=%d\n", k.c_str(), sh, pol, depth);
    }
}

// -------------------------------------------------------------------------------------
// helpers
// -------------------------------------------------------------------------------------
struct EdgeKey { node_handle n; unsigned long ev; bool operator<(const EdgeKey& o) const { return n<o.n || (n==o.n && ev<o.ev); } };
static EdgeKey key_of(const dd_edge& e) { return EdgeKey{e.getNode(), ev_bits(e.getEdgeValue())}; }

// build the function by a minterm collection listing every point (order variants)
static void build_by_coll(forest* F, const Kind& k, const Shape& s, const Table& t, int order, dd_edge& out)
{
    long P = s.points(k.rel);
    minterm_coll mc((unsigned)P+1, F);
    std::vector<long> pts;
    // for bool / EV+ list only non-default points, for int/real list all points with default = min of table
    double dmin = INF; for (double v : t) dmin = std::min(dmin, v);
    bool useMin = k.isEVp();
    double deflt = useMin ? INF : (k.range=='b' ? 0.0 : dmin);
    for (long p=0;p<P;p++) if (t[p]!=deflt || (k.range!='b' && !useMin)) pts.push_back(p);
    if (order==1) std::reverse(pts.begin(), pts.end());
    if (order==2 && pts.size()>1) std::rotate(pts.begin(), pts.begin()+pts.size()/2, pts.end());
    for (long p : pts) {
        set_point(mc.unused(), k, s, p);
        mc.unused().setValue(to_rangeval(k, t[p]));
        mc.pushUnused();
    }
    if (useMin) mc.buildFunctionMin(to_rangeval(k,deflt), out);
    else mc.buildFunctionMax(to_rangeval(k,deflt), out);
}
// accumulate single-minterm functions
static bool build_by_accum(forest* F, const Kind& k, const Shape& s, const Table& t, dd_edge& out)
{
    long P = s.points(k.rel);
    double dmin = INF; for (double v : t) dmin = std::min(dmin, v);
    bool useMin = k.isEVp();
    double deflt = useMin ? INF : (k.range=='b' ? 0.0 : dmin);
    binary_operation* acc = get_bop(k.range=='b' ? UNION() : (useMin ? MINIMUM() : MAXIMUM()), F,F,F, "accum");
    if (!acc) return false;
    F->createConstant(to_rangeval(k,deflt), out);
    minterm m(F);
    dd_edge tmp(F);
    for (long p=0;p<P;p++) {
        if (t[p]==deflt) continue;
        set_point(m,k,s,p);
        m.setValue(to_rangeval(k,t[p]));
        m.buildFunction(to_rangeval(k,deflt), tmp);
        acc->compute(out, tmp, out);
    }
    return true;
}

static bool conv_ok(const Kind& from, const Kind& to, const Table& t)
{
    // is the conversion from->to->from lossless on this table?
    for (double v : t) {
        if (v==INF && !to.isEVp()) return false;
        if (to.range=='b' && v!=0 && v!=1) return false;
        if (to.range=='i' && v!=(long)v) return false;
        if (to.isEVt() && v<0) { /* EV* with negative values is fine */ }
    }
    (void)from;
    return true;
}

// -------------------------------------------------------------------------------------
// E1: universes
// -------------------------------------------------------------------------------------
static void run_univ(const std::map<std::string,std::string>& spec)
{
    Kind k = kind_parse(spec_get(spec,"kind"));
    Shape s = shape_by_name(spec_get(spec,"shape"));
    Pol pol = pol_parse(spec_get(spec,"pol","eao"));
    std::vector<double> V = alphabet(k);
    long P = s.points(k.rel);
    unsigned long U = ipow(V.size(), P);

    lib_init();
    domain* d = make_domain(s);
    forest* F = make_forest(d, k, pol);
    if (!F) { lib_done(); return; }
    // helper forests: every other kind with the same set/rel-ness
    std::vector<Kind> others = k.rel ? all_rel_kinds() : all_set_kinds();
    std::vector<forest*> OF;
    for (const Kind& o : others) OF.push_back(make_forest(d, o, pol));
    forest* F2 = make_forest(d, k, pol);   // distinct forest of the same kind

    Builder B(F,k,s);
    std::vector<dd_edge> univ(U, dd_edge(F));
    std::map<EdgeKey,unsigned long> seen;

    // pass 1: build all, hold all, injectivity + read-back
    for (unsigned long i=0;i<U;i++) {
        Table t = tab_from_index(i,P,V);
        if (!case_begin("univ build kind=%s shape=%s pol=%s f=%lu [%s]", k.name().c_str(), s.name.c_str(), pol.name().c_str(), i, tab_str(t).c_str())) {
            if (ctx.only>=0) B.build(t, univ[i]);   // isolated replay of a later case still needs the universe
            continue;
        }
        B.build(t, univ[i]);
        std::string err = check_edge(univ[i],k,s,t);
        if (!err.empty()) { violation("build-readback", "harness-built edge: %s", err.c_str()); continue; }
        auto ins = seen.emplace(key_of(univ[i]), i);
        if (!ins.second) violation("not-injective", "functions %lu and %lu (different tables) share the edge <%lx,%d>", ins.first->second, i, key_of(univ[i]).ev, (int)univ[i].getNode());
        if (!tab_is_const(t)) note_nontrivial(hmix(1,i));
    }
    { std::string a = audit_forest(F,k); if (!a.empty()) { strcpy(ctx.cur,"audit after building the universe"); violation("audit", "%s", a.c_str()); } }

    // pass 2: rebuild by every other path while the first copy is alive
    dd_edge r(F), tmp(F), tmp2(F);
    dd_edge one(F), zero(F), full(F);
    for (unsigned long i=0;i<U && !ctx.stop;i++) {
        if (ctx.only<0 && ctx.upto<0 && ctx.viol>ctx.maxviol) break;
        Table t = tab_from_index(i,P,V);
        const char* ts = nullptr; std::string tss = tab_str(t); ts = tss.c_str();
        if (univ[i].getForest()==nullptr) continue;
        for (int order=0; order<3; order++) {
            if (!case_begin("rebuild coll order=%d kind=%s shape=%s f=%lu [%s]", order, k.name().c_str(), s.name.c_str(), i, ts)) continue;
            try {
                build_by_coll(F,k,s,t,order,r);
                if (r != univ[i]) violation("noncanonical-coll", "minterm collection (order %d) gives edge <%lx,%d>, harness builder gave <%lx,%d>; reads [%s]", order, ev_bits(r.getEdgeValue()), (int)r.getNode(), ev_bits(univ[i].getEdgeValue()), (int)univ[i].getNode(), [&]{Table x; read_eval(r,k,s,x); return tab_str(x);}().c_str());
            } catch (MEDDLY::error e) { violation("error-coll", "minterm collection threw %s (%s:%u)", e.getName(), e.getFile(), e.getLine()); }
        }
        if (case_begin("rebuild accum kind=%s shape=%s f=%lu [%s]", k.name().c_str(), s.name.c_str(), i, ts)) {
            try {
                if (build_by_accum(F,k,s,t,r)) {
                    if (r != univ[i]) violation("noncanonical-accum", "accumulating single minterms gives a different edge; reads [%s]", [&]{Table x; read_eval(r,k,s,x); return tab_str(x);}().c_str());
                }
            } catch (MEDDLY::error e) { violation("error-accum", "accumulate threw %s (%s:%u)", e.getName(), e.getFile(), e.getLine()); }
        }
        // copies through every other kind and back
        for (size_t j=0;j<others.size();j++) {
            if (!OF[j]) continue;
            if (!conv_ok(k, others[j], t)) continue;
            if (others[j].isEVp() && k.isMT()) {
                // MT -> EV+ maps every value to a finite edge value; coming back is lossless
            }
            if (!case_begin("rebuild copy via=%s kind=%s shape=%s f=%lu [%s]", others[j].name().c_str(), k.name().c_str(), s.name.c_str(), i, ts)) continue;
            unary_operation* c1 = get_uop(COPY(), F, OF[j], "COPY");
            unary_operation* c2 = get_uop(COPY(), OF[j], F, "COPY");
            if (!c1 || !c2) continue;
            try {
                dd_edge mid(OF[j]);
                c1->compute(univ[i], mid);
                c2->compute(mid, r);
                if (r != univ[i]) {
                    Table x; read_eval(r,k,s,x);
                    // only a canonicity violation if the round trip denotes the same function
                    if (tab_eq(k,x,t)) violation("noncanonical-copy", "copy via %s and back denotes the same function but is a different edge", others[j].name().c_str());
                    else ctx.counters["copy_roundtrip_changed_function(seen_by_C10)"]++;
                }
            } catch (MEDDLY::error e) { ctx.counters["copy_threw(seen_by_C10)"]++; }
        }
        if (F2 && case_begin("rebuild copy via same-kind forest kind=%s shape=%s f=%lu [%s]", k.name().c_str(), s.name.c_str(), i, ts)) {
            unary_operation* c1 = get_uop(COPY(), F, F2, "COPY");
            unary_operation* c2 = get_uop(COPY(), F2, F, "COPY");
            if (c1 && c2) {
                try {
                    dd_edge mid(F2); c1->compute(univ[i], mid); c2->compute(mid, r);
                    if (r != univ[i]) { Table x; read_eval(r,k,s,x); if (tab_eq(k,x,t)) violation("noncanonical-copy", "copy via a second forest of the same kind and back is a different edge"); }
                } catch (MEDDLY::error e) { ctx.counters["copy_threw(seen_by_C10)"]++; }
            }
        }
        // algebraic rebuild recipes
        if (case_begin("rebuild algebra kind=%s shape=%s f=%lu [%s]", k.name().c_str(), s.name.c_str(), i, ts)) {
            try {
                if (k.range=='b' && k.isMT()) {
                    binary_operation* un = get_bop(UNION(),F,F,F,"UNION");
                    binary_operation* in = get_bop(INTERSECTION(),F,F,F,"INTERSECTION");
                    binary_operation* df = get_bop(DIFFERENCE(),F,F,F,"DIFFERENCE");
                    unary_operation* co = get_uop(COMPLEMENT(),F,F,"COMPLEMENT");
                    F->createConstant(rangeval(true), full);
                    F->createConstant(rangeval(false), zero);
                    if (un) { un->compute(univ[i], zero, r); if (r!=univ[i]) violation("noncanonical-alg","f | 0 != f"); un->compute(univ[i],univ[i],r); if (r!=univ[i]) violation("noncanonical-alg","f | f != f"); }
                    if (in) { in->compute(univ[i], full, r); if (r!=univ[i]) violation("noncanonical-alg","f & 1 != f"); }
                    if (df) { df->compute(univ[i], zero, r); if (r!=univ[i]) violation("noncanonical-alg","f \\ 0 != f"); }
                    if (co) { co->compute(univ[i], tmp); co->compute(tmp, r); if (r!=univ[i]) violation("noncanonical-alg","!!f != f"); }
                    if (un && in && co) {
                        // (f | g) & (f | !g) == f for g = a few other functions
                        for (unsigned long g : {(unsigned long)0, U/3, U/2, U-1, (i*7+3)%U}) {
                            un->compute(univ[i], univ[g], tmp);
                            co->compute(univ[g], tmp2);
                            un->compute(univ[i], tmp2, tmp2);
                            in->compute(tmp, tmp2, r);
                            if (r!=univ[i]) violation("noncanonical-alg","(f|g)&(f|!g) != f for g=%lu", g);
                        }
                    }
                } else {
                    binary_operation* mx = get_bop(MAXIMUM(),F,F,F,"MAXIMUM");
                    binary_operation* mn = get_bop(MINIMUM(),F,F,F,"MINIMUM");
                    binary_operation* pl = get_bop(PLUS(),F,F,F,"PLUS");
                    binary_operation* mu = get_bop(MULTIPLY(),F,F,F,"MULTIPLY");
                    if (mx) { mx->compute(univ[i],univ[i],r); if (r!=univ[i]) violation("noncanonical-alg","max(f,f) != f"); }
                    if (mn) { mn->compute(univ[i],univ[i],r); if (r!=univ[i]) violation("noncanonical-alg","min(f,f) != f"); }
                    if (pl) { F->createConstant(to_rangeval(k,0.0), zero); pl->compute(univ[i],zero,r); if (r!=univ[i]) violation("noncanonical-alg","f + 0 != f"); pl->compute(zero,univ[i],r); if (r!=univ[i]) violation("noncanonical-alg","0 + f != f"); }
                    if (mu && !k.isEVp()) { F->createConstant(to_rangeval(k,1.0), one); mu->compute(univ[i],one,r); if (r!=univ[i]) violation("noncanonical-alg","f * 1 != f"); }
                    if (mx && mn) {
                        for (unsigned long g : {(unsigned long)0, U/3, U/2, U-1, (i*7+3)%U}) {
                            // min(max(f,g), f) == f   (absorption)
                            mx->compute(univ[i], univ[g], tmp);
                            mn->compute(tmp, univ[i], r);
                            if (r!=univ[i]) violation("noncanonical-alg","min(max(f,g),f) != f for g=%lu", g);
                        }
                    }
                }
            } catch (MEDDLY::error e) { violation("error-alg", "algebraic recipe threw %s (%s:%u)", e.getName(), e.getFile(), e.getLine()); }
        }
        if ((i & 1023) == 1023) { std::string a = audit_forest(F,k); if (!a.empty()) { violation("audit","%s",a.c_str()); break; } }
    }
    r.detach(); tmp.detach(); tmp2.detach(); one.detach(); zero.detach(); full.detach();
    { std::string a = audit_forest(F,k); if (!a.empty()) { strcpy(ctx.cur,"final audit"); violation("audit", "%s", a.c_str()); } }
    // operands are never changed: re-read the universe
    for (unsigned long i=0;i<U;i++) {
        if (univ[i].getForest()==nullptr) continue;
        Table t = tab_from_index(i,P,V), x;
        read_eval(univ[i],k,s,x);
        if (!tab_eq(k,x,t)) { snprintf(ctx.cur,sizeof ctx.cur,"re-read universe f=%lu",i); violation("operand-changed","held edge now reads [%s], was [%s]", tab_str(x).c_str(), tab_str(t).c_str()); break; }
    }
    univ.clear();
    domain::destroy(d);
    lib_done();
}

// -------------------------------------------------------------------------------------
// E2: histories. 3 registers, catalogue = whole universe of the (tiny) shape.
// Symbols: BUILD(r,i,path) path in {0 harness,1 coll,2 accum}; OPB(o,r1,r2,r3); VIA(r1,r2) copy r1 through helper into r2;
//          RELEASE(r); CLEAR; CHURNUP; CHURNDOWN
// -------------------------------------------------------------------------------------
struct Sym { int type; int a,b,c,d; };
enum { S_BUILD, S_OP, S_VIA, S_RELEASE, S_CLEAR, S_CHURNUP, S_CHURNDOWN };

static std::string sym_str(const Sym& y)
{
    char b[96];
    switch (y.type) {
        case S_BUILD: snprintf(b,sizeof b,"BUILD(r%d,f%d,p%d)",y.a,y.b,y.c); break;
        case S_OP: snprintf(b,sizeof b,"OP(%d,r%d,r%d,r%d)",y.a,y.b,y.c,y.d); break;
        case S_VIA: snprintf(b,sizeof b,"VIA(r%d,r%d)",y.a,y.b); break;
        case S_RELEASE: snprintf(b,sizeof b,"RELEASE(r%d)",y.a); break;
        case S_CLEAR: snprintf(b,sizeof b,"CLEAR"); break;
        case S_CHURNUP: snprintf(b,sizeof b,"CHURNUP"); break;
        default: snprintf(b,sizeof b,"CHURNDOWN");
    }
    return b;
}

struct HistScenario {
    Kind k; Shape s; Pol pol; std::vector<double> V; long P; unsigned long U;
    std::vector<Table> cat;
    std::vector<Sym> alpha;
    int nops;
};

static double scal_op(const Kind& k, int o, double a, double b)
{
    if (k.range=='b') { switch (o) { case 0: return (a||b); case 1: return (a&&b); default: return (a&&!b); } }
    switch (o) { case 0: return std::max(a,b); case 1: return std::min(a,b); default: return a+b; }
}

static void exec_history(HistScenario& H, const std::vector<int>& hist)
{
    lib_init();
    domain* d = make_domain(H.s);
    forest* F = make_forest(d,H.k,H.pol);
    Kind hk = H.k; hk.rr = (H.k.rr=='F') ? 'Q' : 'F';
    forest* G = make_forest(d,hk,H.pol);
    {
        Builder B(F,H.k,H.s);
        dd_edge reg[3] = {dd_edge(F),dd_edge(F),dd_edge(F)};
        Table rt[3]; bool has[3]={false,false,false};
        std::vector<dd_edge> churn;
        binary_operation* ops[3];
        if (H.k.range=='b') { ops[0]=get_bop(UNION(),F,F,F,"UNION"); ops[1]=get_bop(INTERSECTION(),F,F,F,"INTERSECTION"); ops[2]=get_bop(DIFFERENCE(),F,F,F,"DIFFERENCE"); }
        else { ops[0]=get_bop(MAXIMUM(),F,F,F,"MAXIMUM"); ops[1]=get_bop(MINIMUM(),F,F,F,"MINIMUM"); ops[2]=get_bop(PLUS(),F,F,F,"PLUS"); }
        unary_operation* c1 = get_uop(COPY(),F,G,"COPY"); unary_operation* c2 = get_uop(COPY(),G,F,"COPY");
        bool ok = true;
        for (int si : hist) {
            const Sym& y = H.alpha[si];
            ++ctx.transitions;
            try {
            switch (y.type) {
                case S_BUILD:
                    if (y.c==0) B.build(H.cat[y.b], reg[y.a]);
                    else if (y.c==1) build_by_coll(F,H.k,H.s,H.cat[y.b],1,reg[y.a]);
                    else build_by_accum(F,H.k,H.s,H.cat[y.b],reg[y.a]);
                    rt[y.a]=H.cat[y.b]; has[y.a]=true; break;
                case S_OP:
                    if (!has[y.b]||!has[y.c]||!ops[y.a]) break;
                    { Table t(H.P); for (long p=0;p<H.P;p++) t[p]=scal_op(H.k,y.a,rt[y.b][p],rt[y.c][p]);
                      ops[y.a]->compute(reg[y.b],reg[y.c],reg[y.d]); rt[y.d]=t; has[y.d]=true; }
                    break;
                case S_VIA:
                    if (!has[y.a]||!c1||!c2) break;
                    { dd_edge mid(G); c1->compute(reg[y.a],mid); c2->compute(mid,reg[y.b]); rt[y.b]=rt[y.a]; has[y.b]=true; }
                    break;
                case S_RELEASE: reg[y.a].set(F->getTransparentEdge(), F->getTransparentNode()); has[y.a]=false; break;
                case S_CLEAR: F->removeAllComputeTableEntries(); break;
                case S_CHURNUP:
                    for (unsigned long i=0;i<H.U && i<20;i++) { churn.emplace_back(F); B.build(H.cat[(i*5+1)%H.U], churn.back()); }
                    break;
                case S_CHURNDOWN: churn.clear(); break;
            }
            } catch (MEDDLY::error e) { violation("hist-error","symbol %s threw %s (%s:%u)", sym_str(y).c_str(), e.getName(), e.getFile(), e.getLine()); ok=false; break; }
        }
        if (ok) {
            // oracle
            unsigned long oc = 5;
            for (int i=0;i<3;i++) for (int j=i+1;j<3;j++) {
                if (!has[i]||!has[j]) continue;
                bool eqt = (rt[i]==rt[j]);
                bool eqe = (reg[i]==reg[j]);
                if (eqt != eqe) violation("hist-eq", "registers r%d [%s] and r%d [%s]: tables %s but edges %s", i, tab_str(rt[i]).c_str(), j, tab_str(rt[j]).c_str(), eqt?"equal":"differ", eqe?"equal":"differ");
            }
            for (int i=0;i<3;i++) if (has[i]) {
                std::string err = check_edge(reg[i],H.k,H.s,rt[i]);
                if (!err.empty()) violation("hist-readback", "register r%d: %s", i, err.c_str());
                oc = hmix(oc, tab_hash(rt[i])+i);
            } else oc = hmix(oc, 17+i);
            oc = hmix(oc, (unsigned long)F->getCurrentNumNodes());
            note_outcome(oc);
            AuditOpts ao;
            std::string a = audit_forest(F,H.k,ao);
            if (!a.empty()) violation("hist-audit","%s",a.c_str());
            // destructive: rebuild each register's table with the harness builder and require ==
            for (int i=0;i<3;i++) if (has[i]) {
                dd_edge x(F); B.build(rt[i], x);
                if (x != reg[i]) violation("hist-noncanonical", "register r%d [%s] differs from a fresh harness build of the same table", i, tab_str(rt[i]).c_str());
            }
        }
    }
    domain::destroy(d);
    lib_done();
}

static void run_hist(const std::map<std::string,std::string>& spec)
{
    HistScenario H;
    H.k = kind_parse(spec_get(spec,"kind"));
    H.s = shape_by_name(spec_get(spec,"shape"));
    H.pol = pol_parse(spec_get(spec,"pol","eao"));
    H.V = alphabet(H.k); H.P = H.s.points(H.k.rel); H.U = ipow(H.V.size(), H.P);
    int depth = (int)spec_int(spec,"depth",3);
    // catalogue: whole universe if <= 16 functions, else a fixed structured subset of 12
    std::vector<unsigned long> idx;
    if (H.U <= 16) for (unsigned long i=0;i<H.U;i++) idx.push_back(i);
    else for (unsigned long i=0;i<12;i++) idx.push_back((i*(H.U/12+1)+i) % H.U);
    for (unsigned long i : idx) H.cat.push_back(tab_from_index(i,H.P,H.V));
    H.U = H.cat.size();
    // alphabet, simplest first
    for (int r=0;r<2;r++) for (int f=0;f<(int)H.cat.size();f++) H.alpha.push_back(Sym{S_BUILD,r,f,0,0});
    for (int f=0;f<(int)H.cat.size();f+=3) { H.alpha.push_back(Sym{S_BUILD,2,f,1,0}); H.alpha.push_back(Sym{S_BUILD,2,f,2,0}); }
    for (int o=0;o<3;o++) { H.alpha.push_back(Sym{S_OP,o,0,1,2}); H.alpha.push_back(Sym{S_OP,o,1,0,0}); H.alpha.push_back(Sym{S_OP,o,2,2,1}); }
    H.alpha.push_back(Sym{S_VIA,0,2,0,0}); H.alpha.push_back(Sym{S_VIA,1,1,0,0});
    for (int r=0;r<3;r++) H.alpha.push_back(Sym{S_RELEASE,r,0,0,0});
    H.alpha.push_back(Sym{S_CLEAR,0,0,0,0});
    H.alpha.push_back(Sym{S_CHURNUP,0,0,0,0});
    H.alpha.push_back(Sym{S_CHURNDOWN,0,0,0,0});
    ctx.counters["alphabet"] = (long)H.alpha.size();
    ctx.counters["depth"] = depth;

    // all sequences of length 1, then 2, ... (the first counterexample is the shortest)
    std::vector<int> hist;
    for (int len=1; len<=depth && !ctx.stop; len++) {
        hist.assign(len, 0);
        for (;;) {
            if (ctx.stop) break;
            if (ctx.only<0 && ctx.upto<0 && ctx.viol>ctx.maxviol) break;
            std::string hs; for (int si : hist) { hs += sym_str(H.alpha[si]); hs += ' '; }
            if (case_begin("hist kind=%s shape=%s pol=%s : %s", H.k.name().c_str(), H.s.name.c_str(), H.pol.name().c_str(), hs.c_str())) {
                exec_history(H, hist);
                if (len>=2) note_nontrivial(hstr(hs));
            }
            int i=len-1;
            while (i>=0 && ++hist[i]==(int)H.alpha.size()) { hist[i]=0; --i; }
            if (i<0) break;
        }
    }
}

// -------------------------------------------------------------------------------------
// matrix products.  Functions: the whole universe when it has <= 512 members (S1 with the 4-value alphabet, S2 with the
// two-value one), otherwise the two-value functions with at most two nonzero points plus the identity matrix and the
// "identity on all but one variable" patterns.  Every ordered pair (a,b): P = MM_MULTIPLY(a,b) must read as the product
// table computed with plain loops AND be the same edge as the harness builder's edge for that table (C01).
// -------------------------------------------------------------------------------------
static void run_mm(const std::map<std::string,std::string>& spec)
{
    Kind k = kind_parse(spec_get(spec,"kind"));
    Shape s = shape_by_name(spec_get(spec,"shape"));
    Pol pol = pol_parse(spec_get(spec,"pol","eao"));
    long P = s.relPoints();
    long N = s.setPoints();
    std::vector<double> V = alphabet(k);
    if (std::pow((double)V.size(), (double)P) > 512.0) V = alphabet(k,2);
    std::vector<Table> fam;
    if (std::pow((double)V.size(), (double)P) <= 512.0) {
        unsigned long U = ipow(V.size(), P);
        for (unsigned long i=0;i<U;i++) fam.push_back(tab_from_index(i,P,V));
    } else {
        Table z(P, V[0]);
        fam.push_back(z);
        for (long p=0;p<P;p++) { Table t=z; t[p]=V[1]; fam.push_back(t); }
        for (long p=0;p<P;p++) for (long q=p+1;q<P;q++) { Table t=z; t[p]=V[1]; t[q]=V[1]; fam.push_back(t); }
        // identity patterns: identity on every variable in mask m, a fixed transition 0->1 / 1->1 on the others
        int x[16], xp[16];
        for (int m=1; m<(1<<s.K()); m++) for (int tr=0; tr<2; tr++) {
            Table t=z;
            for (long p=0;p<P;p++) {
                decode_rel(s,p,x,xp); bool in=true;
                for (int v=1; v<=s.K(); v++) { if (m&(1<<(v-1))) { if (x[v]!=xp[v]) in=false; } else { if (x[v]!=tr || xp[v]!=1) in=false; } }
                if (in) t[p]=V[1];
            }
            fam.push_back(t);
        }
    }
    lib_init();
    domain* d = make_domain(s);
    forest* F = make_forest(d, k, pol);
    if (!F) { lib_done(); return; }
    Kind rk = kind_parse(spec_get(spec,"res",k.name().c_str()));
    forest* R = (rk.name()==k.name()) ? F : make_forest(d, rk, pol);
    if (!R) { lib_done(); return; }
    binary_operation* mm = nullptr;
    try { mm = MM_MULTIPLY(F,F,R); } catch (MEDDLY::error e) { mm = nullptr; }
    if (!mm) { declined("MM_MULTIPLY on %s", k.name().c_str()); domain::destroy(d); lib_done(); return; }
    Builder B(F,k,s), BR(R,rk,s);
    std::vector<dd_edge> E(fam.size(), dd_edge(F));
    for (size_t i=0;i<fam.size();i++) B.build(fam[i], E[i]);
    dd_edge r(R), exp(R);
    int x[16], xp[16], y[16];
    for (size_t a=0;a<fam.size() && !ctx.stop;a++) {
        if (ctx.only<0 && ctx.upto<0 && ctx.viol>ctx.maxviol) break;
        for (size_t b=0;b<fam.size();b++) {
            if (!case_begin("mm kind=%s res=%s shape=%s a=[%s] b=[%s]", k.name().c_str(), rk.name().c_str(), s.name.c_str(), tab_str(fam[a]).c_str(), tab_str(fam[b]).c_str())) continue;
            Table t(P, 0.0);
            for (long p=0;p<P;p++) {
                decode_rel(s,p,x,xp); double acc=0;
                for (long q=0;q<N;q++) { decode_set(s,q,y); acc += fam[a][encode_rel(s,x,y)] * fam[b][encode_rel(s,y,xp)]; }
                t[p]=acc;
            }
            try {
                mm->compute(E[a], E[b], r);
                std::string err = check_edge(r,rk,s,t);
                if (!err.empty()) { violation("mm-wrong-result", "MM_MULTIPLY: %s", err.c_str()); continue; }
                BR.build(t, exp);
                if (r != exp) violation("noncanonical-mm", "MM_MULTIPLY gives edge <%d>, harness builder gave <%d> for the same table [%s]", (int)r.getNode(), (int)exp.getNode(), tab_str(t).c_str());
                if (!tab_is_const(t)) note_nontrivial(hmix(a,b));
            } catch (MEDDLY::error e) { violation("error-mm", "MM_MULTIPLY threw %s (%s:%u)", e.getName(), e.getFile(), e.getLine()); }
        }
        if ((a & 63) == 63) { std::string au = audit_forest(R,rk); if (!au.empty()) { violation("audit","%s",au.c_str()); break; } }
    }
    r.detach(); exp.detach();
    { std::string au = audit_forest(F,k); if (!au.empty()) { strcpy(ctx.cur,"final audit (mm)"); violation("audit", "%s", au.c_str()); } }
    if (R!=F) { std::string au = audit_forest(R,rk); if (!au.empty()) { strcpy(ctx.cur,"final audit (mm, result forest)"); violation("audit", "%s", au.c_str()); } }
    for (size_t i=0;i<fam.size();i++) { Table xr; read_eval(E[i],k,s,xr); if (!tab_eq(k,xr,fam[i])) { snprintf(ctx.cur,sizeof ctx.cur,"re-read mm operand %zu",i); violation("operand-changed","held edge now reads [%s]", tab_str(xr).c_str()); break; } }
    E.clear();
    domain::destroy(d);
    lib_done();
}

static void run_unit(const std::map<std::string,std::string>& spec)
{
    if (spec_get(spec,"mode")=="hist") run_hist(spec); else if (spec_get(spec,"mode")=="mm") run_mm(spec); else run_univ(spec);
}
int main(int argc, char** argv) { return std_main(argc, argv, list_units, run_unit); }
