// C14 exchange-file round trip: every root list (<= 2 roots, incl. repeated, terminal and shared roots, and the empty list)
// x writer storage flag x reader storage flag x target {same forest, second forest of the same kind, forest created from the file}.
#include "common.h"
#include <sstream>

static void list_units(const std::string& tier)
{
    bool th = tier=="thorough";
    for (const Kind& k : all_set_kinds()) for (const char* sh : {"S1","S2","S3","S4"}) {
        if (!th && !strcmp(sh,"S4") && k.range!='b') { printf("kind=%s,shape=%s,sel=fam0\n", k.name().c_str(), sh); continue; }
        printf("kind=%s,shape=%s,sel=%s\n", k.name().c_str(), sh, "all");
    }
    // three levels: files whose nodes skip a middle level
    for (const Kind& k : all_set_kinds()) printf("kind=%s,shape=S6,sel=%s\n", k.name().c_str(), k.range=='b' ? "all" : "fam0");
    for (const Kind& k : all_rel_kinds()) printf("kind=%s,shape=S6,sel=fam0\n", k.name().c_str());
    for (const char* sh : {"S1","S2","S3","S4","S6"}) for (const char* ir : {"F","Q"}) printf("mode=index,shape=%s,idx=%s\n", sh, ir);
    for (const Kind& k : all_rel_kinds()) {
        printf("kind=%s,shape=S1,sel=all\n", k.name().c_str());
        printf("kind=%s,shape=S2,sel=%s\n", k.name().c_str(), k.range=='b' ? "all" : "fam0");
        if (th) printf("kind=%s,shape=S3,sel=fam0\n", k.name().c_str());
    }
}

static std::string g_kind, g_shape;
static void fmt_case(char* buf, size_t n, const long* a)
{
    static const char* TG[3] = {"same forest","second forest of the same kind","forest created from the file"};
    snprintf(buf,n,"round trip kind=%s shape=%s writer-storage=%c reader-storage=%c target=%s roots=(f%ld%s%s) (function number = base-|V| digits of the truth table; -1 = no root)", g_kind.c_str(), g_shape.c_str(), (char)a[0], (char)a[1], TG[a[2]], a[3], a[4]>=-1?",f":"", a[4]>=-1?std::to_string(a[4]).c_str():"");
}

static void run_unit(const std::map<std::string,std::string>& spec)
{
    Kind k = kind_parse(spec_get(spec,"kind"));
    Shape s = shape_by_name(spec_get(spec,"shape"));
    std::string sel = spec_get(spec,"sel","all");
    g_kind=k.name(); g_shape=s.name;
    std::vector<double> V = alphabet_for(k,shape_by_name(spec_get(spec,"shape")));
    long P = s.points(k.rel);
    unsigned long U = ipow(V.size(),P);
    std::vector<unsigned long> idx;
    if (sel=="all" && U<=4096) for (unsigned long i=0;i<U;i++) idx.push_back(i); else idx = structured_family(k,s,V,1,true);
    const bool defaultRule = k.rel ? (k.rr=='I') : (k.rr=='F');
    for (char ws : {'e','f','s'}) for (char rs : {'e','f','s'}) {
        if (ctx.stop) break;
        lib_init();
        domain* d = make_domain(s);
        Pol wp; wp.stor=ws; Pol rp; rp.stor=rs;
        forest* FW = make_forest(d,k,wp);
        forest* FR = make_forest(d,k,rp);
        if (!FW || !FR) { lib_done(); continue; }
        {
            Builder B(FW,k,s);
            // root lists: (i), (i,i), (i,next), and () ; for small universes every ordered pair
            std::vector<std::pair<long,long>> lists;
            lists.push_back({-1,-2});
            for (size_t a=0;a<idx.size();a++) { lists.push_back({(long)idx[a],-2}); lists.push_back({(long)idx[a],(long)idx[a]}); lists.push_back({(long)idx[a],(long)idx[(a+1)%idx.size()]}); }
            if (idx.size()<=16) for (size_t a=0;a<idx.size();a++) for (size_t b=0;b<idx.size();b++) lists.push_back({(long)idx[a],(long)idx[b]});
            for (auto& L : lists) {
                if (ctx.stop) break;
                std::vector<Table> tabs; std::vector<dd_edge> roots;
                for (long fi : {L.first, L.second}) if (fi>=0) { tabs.push_back(tab_from_index((unsigned long)fi,P,V)); roots.emplace_back(FW); B.build(tabs.back(), roots.back()); }
                for (int target=0; target<3; target++) {
                    // the file format does not record the reduction rule: a forest created from the file uses the library default
                    // (fully reduced sets, identity reduced relations), so that target is 'another forest of the same kind' only then
                    if (target==2 && !defaultRule) continue;
                    if (!case_lazy(fmt_case, ws, rs, target, L.first, L.second)) continue;
                    try {
                        std::stringstream ss;
                        { ostream_output out(ss); mdd_writer w(out, FW); for (auto& r : roots) w.writeRootEdge(r); w.finish(); }
                        istream_input in(ss);
                        forest* FT = target==0 ? FW : FR;
                        std::vector<dd_edge> got;
                        if (target<2) {
                            mdd_reader rd(in, FT);
                            if (rd.numRoots()!=roots.size()) { violation("root-count","file holds %u roots, %zu were written", rd.numRoots(), roots.size()); continue; }
                            for (size_t i=0;i<roots.size();i++) { got.emplace_back(FT); rd.readRootEdge(got.back()); }
                        } else {
                            mdd_reader rd(in, d);
                            FT = rd.getForest();
                            if (!FT) { violation("no-forest","reader did not create a forest"); continue; }
                            if (rd.numRoots()!=roots.size()) { violation("root-count","file holds %u roots, %zu were written", rd.numRoots(), roots.size()); continue; }
                            for (size_t i=0;i<roots.size();i++) { got.emplace_back(FT); rd.readRootEdge(got.back()); }
                        }
                        // the reader object is gone: its temporary links must be released
                        Kind kt = k; if (target==2) { kt.rr = FT->isFullyReduced() ? 'F' : FT->isQuasiReduced() ? 'Q' : 'I'; }
                        for (size_t i=0;i<roots.size();i++) {
                            std::string err = check_edge(got[i],kt,s,tabs[i]);
                            if (!err.empty()) { violation("wrong-function","root %zu [%s]: %s", i, tab_str(tabs[i]).c_str(), err.c_str()); continue; }
                            if (target==0 && k.range!='r' && got[i]!=roots[i]) violation("noncanonical","root %zu read back into the same forest is a different edge for the same function", i);
                            if (k.range!='r') { Builder BT(FT,kt,s); dd_edge c(FT); BT.build(tabs[i],c); if (c!=got[i]) violation("noncanonical","root %zu read into the %s is not the canonical edge", i, target==1?"second forest":"target forest"); }
                        }
                        if (roots.size()==2 && tabs[0]==tabs[1] && k.range!='r' && got[0]!=got[1]) violation("noncanonical","a repeated root is read back as two different edges");
                        got.clear();
                        std::string a = audit_forest(FT,kt);
                        if (!a.empty()) violation("audit","receiving forest after the reader was destroyed: %s", a.c_str());
                        if (target==2) forest::destroy(FT);
                    } catch (MEDDLY::error e) { violation("op-error","threw %s (%s:%u)", e.getName(), e.getFile(), e.getLine()); }
                    if (!roots.empty() && !tab_is_const(tabs[0])) note_nontrivial(hmix(hmix(ws*3+rs,target), (unsigned long)(L.first*65537+L.second)));
                }
                if (ctx.viol>ctx.maxviol && ctx.only<0 && ctx.upto<0) ctx.stop=true;
            }
        }
        { std::string a = audit_forest(FW,k); if (!a.empty()) { lz_fn_reset(); snprintf(ctx.cur,sizeof ctx.cur,"final audit of the writing forest kind=%s shape=%s",k.name().c_str(),s.name.c_str()); violation("audit","%s",a.c_str()); } }
        domain::destroy(d);
        lib_done();
    }
}
// ---- index-set forests (built by CONVERT_TO_INDEX_SET, the only way the library offers): file round trip into the same forest,
// a second index-set forest, and a forest created from the file (fully-reduced writer = the library default)
static void fmt_idx(char* buf, size_t n, const long* a)
{
    static const char* TG[3] = {"same forest","second index-set forest","forest created from the file"};
    snprintf(buf,n,"index-set round trip shape=%s idx-rule=%c writer-storage=%c reader-storage=%c target=%s sets=(f%ld,f%ld) (bit p of a set number = membership of point p)", g_shape.c_str(), (char)a[0], (char)a[1], (char)a[2], TG[a[3]], a[4], a[5]);
}
static void run_index(const std::map<std::string,std::string>& spec)
{
    Shape s = shape_by_name(spec_get(spec,"shape")); g_shape = s.name;
    Kind ks; ks.rel=false; ks.range='b'; ks.lab='m'; ks.rr='F';
    Kind ki; ki.rel=false; ki.range='i'; ki.lab='x'; ki.rr=spec_get(spec,"idx","F")[0];
    long P = s.setPoints(); unsigned long U = 1UL<<P;
    std::vector<unsigned long> sets; if (U<=256) for (unsigned long i=0;i<U;i++) sets.push_back(i); else sets = structured_family(ks,s,{0,1},2,true);
    auto rank_table = [&](unsigned long i) { Table t(P); long n=0; for (long p=0;p<P;p++) { if ((i>>p)&1) t[p]=(double)n++; else t[p]=INF; } return t; };
    for (char ws : {'e','f','s'}) for (char rs : {'e','f','s'}) {
        if (ctx.stop) break;
        lib_init();
        domain* d = make_domain(s);
        Pol wp; wp.stor=ws; Pol rp; rp.stor=rs;
        forest* FS = make_forest(d,ks,Pol()); forest* FW = make_forest(d,ki,wp); forest* FR = make_forest(d,ki,rp);
        unary_operation* conv = (FS && FW) ? get_uop(CONVERT_TO_INDEX_SET(), FS, FW, "CONVERT_TO_INDEX_SET") : nullptr;
        if (!FS || !FW || !FR || !conv) { lib_done(); continue; }
        {
            Builder BS(FS,ks,s);
            for (size_t a=0; a<sets.size() && !ctx.stop; a++) {
                unsigned long i1 = sets[a], i2 = sets[(a+1)%sets.size()];
                std::vector<Table> tabs{rank_table(i1), rank_table(i2)};
                std::vector<dd_edge> roots;
                for (unsigned long i : {i1,i2}) { dd_edge b(FS); BS.build(tab_from_index(i,P,{0,1}), b); roots.emplace_back(FW); conv->compute(b, roots.back()); }
                for (int target=0; target<3; target++) {
                    if (target==2 && ki.rr!='F') continue;
                    if (!case_lazy(fmt_idx, ki.rr, ws, rs, target, (long)i1, (long)i2)) continue;
                    try {
                        std::stringstream ss;
                        { ostream_output out(ss); mdd_writer w(out, FW); for (auto& r : roots) w.writeRootEdge(r); w.finish(); }
                        istream_input in(ss);
                        forest* FT = target==0 ? FW : FR;
                        std::vector<dd_edge> got;
                        if (target<2) { mdd_reader rd(in, FT); for (size_t i=0;i<roots.size();i++) { got.emplace_back(FT); rd.readRootEdge(got.back()); } }
                        else { mdd_reader rd(in, d); FT = rd.getForest(); if (!FT) { violation("no-forest","reader did not create a forest"); continue; }
                               if (FT->getEdgeLabeling()!=edge_labeling::INDEX_SET) violation("wrong-forest-kind","the forest created from an index-set file is not an index-set forest");
                               for (size_t i=0;i<roots.size();i++) { got.emplace_back(FT); rd.readRootEdge(got.back()); } }
                        for (size_t i=0;i<roots.size();i++) {
                            std::string err = check_edge(got[i],ki,s,tabs[i]);
                            if (!err.empty()) { violation("wrong-function","root %zu [%s]: %s", i, tab_str(tabs[i]).c_str(), err.c_str()); continue; }
                            if (target==0 && got[i]!=roots[i]) violation("noncanonical","root %zu read back into the same forest is a different edge for the same index set", i);
                        }
                        got.clear();
                        std::string au = audit_forest(FT,ki);
                        if (!au.empty()) violation("audit","receiving forest after the reader was destroyed: %s", au.c_str());
                        if (target==2) forest::destroy(FT);
                    } catch (MEDDLY::error e) { violation("op-error","threw %s (%s:%u)", e.getName(), e.getFile(), e.getLine()); }
                    if (i1!=0) note_nontrivial(hmix(hmix(ws*3+rs,target), i1*65537+i2));
                }
                if (ctx.viol>ctx.maxviol && ctx.only<0 && ctx.upto<0) ctx.stop=true;
            }
        }
        domain::destroy(d);
        lib_done();
    }
}
static void run_any(const std::map<std::string,std::string>& spec) { if (spec_get(spec,"mode","")=="index") run_index(spec); else run_unit(spec); }
int main(int argc, char** argv) { return std_main(argc, argv, list_units, run_any); }
