// C17 library / domain / forest lifecycle: every history over
//   INIT CLEANUP NEWDOM NEWFOREST BUILD XOP CLEAR ITER DESTROYFOREST DESTROYDOM USEDETACHED
// up to a depth bound (creation symbols canonicalised to the lowest free slot), checked after every step.
#include "common.h"

enum { Y_INIT, Y_CLEANUP, Y_NEWDOM, Y_NEWFOREST, Y_BUILD, Y_XOP, Y_CLEAR, Y_ITER, Y_DESTROYF, Y_DESTROYD, Y_USEDET, Y_DELITER };
struct Sym { int t, a, b; };
static const char* KN[4] = {"S:MTb:F","S:MTi:Q","R:MTb:I","S:EVpi:F"};
static const char* SHN[2] = {"S3","S4"};
static const char* HOW[6] = {"operand","result","evaluate","copy-assign","cardinality","iterate"};

static std::string sym_str(const Sym& y)
{
    char b[64];
    switch (y.t) {
        case Y_INIT: return "INIT"; case Y_CLEANUP: return "CLEANUP";
        case Y_NEWDOM: snprintf(b,sizeof b,"NEWDOM(%s)",SHN[y.a]); break;
        case Y_NEWFOREST: snprintf(b,sizeof b,"NEWFOREST(d%d,%s)",y.a,KN[y.b]); break;
        case Y_BUILD: snprintf(b,sizeof b,"BUILD(r%d,f%d)",y.a,y.b); break;
        case Y_XOP: snprintf(b,sizeof b,"XOP(r%d,r%d)",y.a,y.b); break;
        case Y_CLEAR: snprintf(b,sizeof b,"CLEAR(f%d)",y.a); break;
        case Y_ITER: snprintf(b,sizeof b,"ITER(r%d)",y.a); break;
        case Y_DELITER: return "DELITER";
        case Y_DESTROYF: snprintf(b,sizeof b,"DESTROYFOREST(f%d)",y.a); break;
        case Y_DESTROYD: snprintf(b,sizeof b,"DESTROYDOM(d%d)",y.a); break;
        default: snprintf(b,sizeof b,"USEDETACHED(r%d,%s)",y.a,HOW[y.b]);
    }
    return b;
}

struct Model {
    bool up=false;
    domain* dom[2]={nullptr,nullptr}; int dshape[2]={0,0};
    forest* F[3]={nullptr,nullptr,nullptr}; int fdom[3]={-1,-1,-1}; int fkind[3]={0,0,0}; unsigned fid[3]={0,0,0};
    dd_edge* reg[3]={nullptr,nullptr,nullptr}; int rf[3]={-1,-1,-1}; bool detached[3]={false,false,false}; Table rt[3]; int rkind[3]={0,0,0}; int rshape[3]={0,0,0};
    dd_edge::iterator* it=nullptr; int itreg=-1;
    unsigned lastfid=0;
};

// enabled symbols in canonical order (simplest first)
static void enabled(const Model& M, std::vector<Sym>& out)
{
    out.clear();
    if (!M.up) { out.push_back({Y_INIT,0,0}); if (M.it) out.push_back({Y_DELITER,0,0}); for (int r=0;r<3;r++) if (M.reg[r] && M.detached[r]) for (int h=0;h<6;h++) out.push_back({Y_USEDET,r,h}); return; }
    int fd=-1; for (int i=0;i<2;i++) if (!M.dom[i]) { fd=i; break; }
    if (fd>=0) for (int s=0;s<2;s++) out.push_back({Y_NEWDOM,s,0});
    int ff=-1; for (int i=0;i<3;i++) if (!M.F[i]) { ff=i; break; }
    if (ff>=0) for (int d=0;d<2;d++) if (M.dom[d]) for (int k=0;k<4;k++) out.push_back({Y_NEWFOREST,d,k});
    int fr=-1; for (int i=0;i<3;i++) if (!M.reg[i]) { fr=i; break; }
    for (int f=0;f<3;f++) if (M.F[f]) { if (fr>=0) out.push_back({Y_BUILD,fr,f}); }
    for (int a=0;a<3;a++) for (int b=0;b<3;b++) if (a!=b && M.reg[a] && M.reg[b] && !M.detached[a] && !M.detached[b] && M.rf[a]!=M.rf[b] && M.fdom[M.rf[a]]==M.fdom[M.rf[b]] && (M.rkind[a]==2)==(M.rkind[b]==2)) out.push_back({Y_XOP,a,b});
    for (int f=0;f<3;f++) if (M.F[f]) out.push_back({Y_CLEAR,f,0});
    if (!M.it) { for (int r=0;r<3;r++) if (M.reg[r] && !M.detached[r]) out.push_back({Y_ITER,r,0}); } else out.push_back({Y_DELITER,0,0});
    for (int f=0;f<3;f++) if (M.F[f]) out.push_back({Y_DESTROYF,f,0});
    for (int d=0;d<2;d++) if (M.dom[d]) out.push_back({Y_DESTROYD,d,0});
    for (int r=0;r<3;r++) if (M.reg[r] && M.detached[r]) for (int h=0;h<6;h++) out.push_back({Y_USEDET,r,h});
    out.push_back({Y_CLEANUP,0,0});
}

static Table fn_for(const Kind& k, const Shape& s, int variant)
{
    long P = s.points(k.rel); Table t(P);
    for (long p=0;p<P;p++) { long v = (p*7 + variant*3 + 1) % 5; t[p] = k.range=='b' ? (double)(v<2) : (double)(v-1); }
    return t;
}

static void check_state(Model& M, const char* after, const std::map<int,unsigned long>& fps_before, int touched_dom)
{
    // registered edges of destroyed forests are inert
    for (int r=0;r<3;r++) if (M.reg[r]) {
        if (M.detached[r]) { if (M.reg[r]->getForest()!=nullptr) violation("not-detached","after %s: register r%d still reports a forest although its forest was destroyed", after, r); }
        else {
            Kind k = kind_parse(KN[M.rkind[r]]); Shape s = shape_by_name(SHN[M.rshape[r]]);
            if (M.reg[r]->getForest()!=M.F[M.rf[r]]) { violation("wrong-forest","after %s: register r%d reports another forest", after, r); continue; }
            std::string err = check_edge(*M.reg[r],k,s,M.rt[r]);
            if (!err.empty()) violation("state-damaged","after %s: register r%d: %s", after, r, err.c_str());
        }
    }
    // the operation registry mentions live forests only ("destroying a forest destroys the operations that mention it")
    for (unsigned i=0; i<operation::op_list.size(); i++) if (operation* op = operation::op_list[i]) {
        for (unsigned j=0; j<op->FList.size(); j++) if (!forest::getForestWithID(op->FList[j])) {
            violation("stale-operation","after %s: operation #%u '%s' is still registered although forest id %u, which it mentions, was destroyed", after, i, op->getName(), op->FList[j]); break; }
    }
    for (int f=0;f<3;f++) if (M.F[f]) {
        Kind k = kind_parse(KN[M.fkind[f]]);
        std::string a = audit_forest(M.F[f],k);
        if (!a.empty()) violation("state-damaged","after %s: forest f%d (%s): %s", after, f, KN[M.fkind[f]], a.c_str());
        // forests of other domains are untouched by a destruction
        auto itb = fps_before.find(f);
        if (touched_dom>=0 && M.fdom[f]!=touched_dom && itb!=fps_before.end() && forest_fingerprint(M.F[f])!=itb->second) violation("other-domain-touched","after %s: forest f%d of another domain changed", after, f);
    }
}

static void exec(const std::vector<Sym>& hist)
{
    Model M;
    size_t step=0;
    for (const Sym& y : hist) {
        ++step; ++ctx.transitions;
        std::string what = "step "+std::to_string(step)+" "+sym_str(y);
        std::map<int,unsigned long> fps; int touched=-1;
        if (M.up && (y.t==Y_DESTROYF || y.t==Y_DESTROYD)) { for (int f=0;f<3;f++) if (M.F[f]) fps[f]=forest_fingerprint(M.F[f]); touched = y.t==Y_DESTROYF ? M.fdom[y.a] : y.a; }
        try {
        switch (y.t) {
            case Y_INIT: lib_init(); M.up=true; M.lastfid=0; break;
            case Y_CLEANUP:
                // an iterator may outlive the library instance; only its destruction (DELITER) is exercised afterwards
                lib_done(); M.up=false;
                for (int r=0;r<3;r++) if (M.reg[r]) M.detached[r]=true;
                for (int f=0;f<3;f++) { M.F[f]=nullptr; M.fdom[f]=-1; } for (int d=0;d<2;d++) M.dom[d]=nullptr;
                break;
            case Y_NEWDOM: { int i = M.dom[0]?1:0; M.dshape[i]=y.a; M.dom[i]=make_domain(shape_by_name(SHN[y.a])); } break;
            case Y_NEWFOREST: { int i=0; while (M.F[i]) ++i; Kind k=kind_parse(KN[y.b]); M.F[i]=make_forest(M.dom[y.a],k,Pol()); M.fdom[i]=y.a; M.fkind[i]=y.b; M.fid[i]=M.F[i]->FID();
                if (M.fid[i] <= M.lastfid) violation("fid-reused","%s: new forest got id %u, an id <= %u was already used in this initialisation", what.c_str(), M.fid[i], M.lastfid);
                M.lastfid = M.fid[i]; } break;
            case Y_BUILD: { int r=y.a, f=y.b; Kind k=kind_parse(KN[M.fkind[f]]); Shape s=shape_by_name(SHN[M.dshape[M.fdom[f]]]);
                M.reg[r]=new dd_edge(M.F[f]); M.rf[r]=f; M.detached[r]=false; M.rkind[r]=M.fkind[f]; M.rshape[r]=M.dshape[M.fdom[f]]; M.rt[r]=fn_for(k,s,r+f);
                Builder(M.F[f],k,s).build(M.rt[r],*M.reg[r]); } break;
            case Y_XOP: { // an operation whose compute-table entries span two forests: copy a into b's forest, combine there
                int a=y.a, b=y.b; forest* FB=M.F[M.rf[b]]; Kind kb=kind_parse(KN[M.rkind[b]]); Kind ka=kind_parse(KN[M.rkind[a]]);
                dd_edge tmp(FB); apply(COPY,*M.reg[a],tmp);
                Table ta(M.rt[a].size()); for (size_t i=0;i<ta.size();i++) ta[i] = kb.range=='b' ? (double)(M.rt[a][i]!=0) : M.rt[a][i];
                if (kb.range=='b') { apply(UNION,*M.reg[b],tmp,*M.reg[b]); for (size_t i=0;i<ta.size();i++) M.rt[b][i] = (M.rt[b][i]!=0||ta[i]!=0); }
                else { apply(PLUS,*M.reg[b],tmp,*M.reg[b]); for (size_t i=0;i<ta.size();i++) M.rt[b][i] += ta[i]; }
                (void)ka; } break;
            case Y_CLEAR: M.F[y.a]->removeAllComputeTableEntries(); break;
            case Y_ITER: M.it = new dd_edge::iterator(*M.reg[y.a]); M.itreg=y.a; if (*M.it) ++(*M.it); break;
            case Y_DESTROYF: { int f=y.a; forest::destroy(M.F[f]); M.F[f]=nullptr;
                for (int r=0;r<3;r++) if (M.reg[r] && !M.detached[r] && M.rf[r]==f) M.detached[r]=true;
                /* an iterator over a destroyed forest stays allocated: only its destruction (DELITER) is exercised later */
                M.fdom[f]=-1; } break;
            case Y_DESTROYD: { int dd=y.a;
                for (int f=0;f<3;f++) if (M.F[f] && M.fdom[f]==dd) { for (int r=0;r<3;r++) if (M.reg[r] && !M.detached[r] && M.rf[r]==f) M.detached[r]=true; M.F[f]=nullptr; M.fdom[f]=-1; }
                domain::destroy(M.dom[dd]); M.dom[dd]=nullptr; } break;
            case Y_DELITER: delete M.it; M.it=nullptr; M.itreg=-1; break;
            case Y_USEDET: { int r=y.a; bool threw=false; dd_edge& e=*M.reg[r];
                static const std::set<int> OK = {error::FOREST_MISMATCH, error::NOT_IMPLEMENTED, error::INVALID_OPERATION, error::DOMAIN_MISMATCH, error::TYPE_MISMATCH, error::UNINITIALIZED, error::UNKNOWN_OPERATION};
                try {
                    switch (y.b) {
                        case 0: { dd_edge c(e); dd_edge res; apply(COPY,e,res); } break;
                        case 1: { // as the result of an operation on live operands, if there are any
                            int o=-1; for (int q=0;q<3;q++) if (M.reg[q] && !M.detached[q]) o=q;
                            if (o>=0) apply(COPY,*M.reg[o],e); else { threw=true; } } break;
                        case 2: { if (M.up && M.dom[0]) { minterm m(M.dom[0], M.rkind[r]==2 ? RELATION : SET); for (unsigned v=1; v<=m.getNumVars(); v++) { if (M.rkind[r]==2) m.setVars(v,0,0); else m.setVar(v,0); } rangeval rv; e.evaluate(m,rv); } else threw=true; } break;
                        case 3: { dd_edge c; c = e; dd_edge d2(e); if (c.getForest()!=nullptr || d2.getForest()!=nullptr) violation("not-detached","%s: a copy of a detached edge reports a forest", what.c_str()); threw=true; } break;   // copying an inert edge is legal and yields an inert edge
                        case 4: { long c=0; apply(CARDINALITY,e,c); } break;
                        default: { dd_edge::iterator i2 = e.begin(); if (i2) { const minterm& mm = *i2; (void)mm.getNumVars(); violation("detached-iterates","%s: iterating a detached edge yields elements", what.c_str()); } threw=true; } break;   // an empty iteration is acceptable
                    }
                } catch (MEDDLY::error er) { threw=true; if (!OK.count((int)er.getCode())) violation("wrong-error-code","%s raised '%s' (%s:%u)", what.c_str(), er.getName(), er.getFile(), er.getLine()); }
                if (!threw) violation("detached-accepted","%s: using an edge whose forest was destroyed returned normally", what.c_str());
                } break;
        }
        } catch (MEDDLY::error er) { violation("lifecycle-error","%s threw %s (%s:%u)", what.c_str(), er.getName(), er.getFile(), er.getLine()); break; }
        if (M.up) check_state(M, what.c_str(), fps, touched);
        else for (int r=0;r<3;r++) if (M.reg[r] && M.reg[r]->getForest()!=nullptr) violation("not-detached","after %s: register r%d still reports a forest after cleanup", what.c_str(), r);
        if (ctx.viol>ctx.maxviol && ctx.only<0 && ctx.upto<0) break;
    }
    unsigned long oc=3; for (int r=0;r<3;r++) oc=hmix(oc, M.reg[r] ? (M.detached[r]?1:2+tab_hash(M.rt[r])) : 0); for (int f=0;f<3;f++) oc=hmix(oc, M.F[f]?M.fkind[f]+1:0); note_outcome(hmix(oc,M.up));
    // tear down: destroy held objects in both possible orders (edges first if the library is down, else after cleanup for odd histories)
    if (M.it) { delete M.it; M.it=nullptr; }
    bool edges_first = (hist.size() & 1);
    if (edges_first) for (int r=0;r<3;r++) { delete M.reg[r]; M.reg[r]=nullptr; }
    if (M.up) { lib_done(); M.up=false; }
    for (int r=0;r<3;r++) { delete M.reg[r]; M.reg[r]=nullptr; }
}

static void list_units(const std::string& tier0)
{
    std::string tier = tier0, variant = "rel";
    size_t c = tier.find(':'); if (c!=std::string::npos) { variant = tier.substr(c+1); tier = tier.substr(0,c); }
    bool th = tier=="thorough", asan = variant=="asan";
    int depth = th ? (asan ? 7 : 9) : (asan ? 6 : 7);
    // the first symbol is always INIT; split by the 2nd and 3rd choices for parallelism
    for (int s=0;s<16;s++) printf("depth=%d,slice=%d,slices=16\n", depth, s);
    // histories that start from a populated state (two forests of one domain, an edge in each): INIT NEWDOM NEWFOREST NEWFOREST BUILD BUILD,
    // then every continuation up to the depth; prefix=1: two set forests (bool, int), prefix=2: in the larger shape
    int pd = th ? (asan ? 5 : 6) : (asan ? 4 : 5);
    for (int p=1;p<=2;p++) for (int s=0;s<8;s++) printf("prefix=%d,depth=%d,slice=%d,slices=8\n", p, pd, s);
    for (int s=0;s<4;s++) printf("prefix=3,depth=%d,slice=%d,slices=4\n", pd-1, s);
}

static void run_unit(const std::map<std::string,std::string>& spec)
{
    int depth=(int)spec_int(spec,"depth",5), slice=(int)spec_int(spec,"slice",0), slices=(int)spec_int(spec,"slices",1);
    ctx.counters["depth"]=depth;
    // DFS over histories; the model is recomputed along the path only through `enabled` (pure bookkeeping mirrors exec)
    std::vector<Sym> hist; long leafno=0;
    std::function<void(Model&)> rec;
    // lightweight bookkeeping twin of exec() used only to compute enabledness
    auto apply_model = [](Model M, const Sym& y)->Model {
        switch (y.t) {
            case Y_INIT: M.up=true; break;
            case Y_CLEANUP: M.up=false; for (int r=0;r<3;r++) if (M.reg[r]) M.detached[r]=true; for (int f=0;f<3;f++) { M.F[f]=nullptr; M.fdom[f]=-1; } for (int d=0;d<2;d++) M.dom[d]=nullptr; break;
            case Y_DELITER: M.it=nullptr; M.itreg=-1; break;
            case Y_NEWDOM: { int i=M.dom[0]?1:0; M.dom[i]=(domain*)1; M.dshape[i]=y.a; } break;
            case Y_NEWFOREST: { int i=0; while (M.F[i]) ++i; M.F[i]=(forest*)1; M.fdom[i]=y.a; M.fkind[i]=y.b; } break;
            case Y_BUILD: M.reg[y.a]=(dd_edge*)1; M.rf[y.a]=y.b; M.detached[y.a]=false; M.rkind[y.a]=M.fkind[y.b]; break;
            case Y_ITER: M.it=(dd_edge::iterator*)1; M.itreg=y.a; break;
            case Y_DESTROYF: for (int r=0;r<3;r++) if (M.reg[r] && !M.detached[r] && M.rf[r]==y.a) M.detached[r]=true; M.F[y.a]=nullptr; M.fdom[y.a]=-1; break;
            case Y_DESTROYD: for (int f=0;f<3;f++) if (M.F[f] && M.fdom[f]==y.a) { for (int r=0;r<3;r++) if (M.reg[r] && !M.detached[r] && M.rf[r]==f) M.detached[r]=true; M.F[f]=nullptr; M.fdom[f]=-1; } M.dom[y.a]=nullptr; break;
            default: break;
        }
        return M;
    };
    std::function<void(const Model&)> dfs = [&](const Model& M) {
        if (ctx.stop) return;
        if ((int)hist.size()==depth) {
            if ((leafno++ % slices) != slice) return;
            if (ctx.only<0 && ctx.upto<0 && ctx.viol>ctx.maxviol) { ctx.stop=true; return; }
            std::string hs; for (auto& y : hist) { hs += sym_str(y); hs += ' '; }
            if (case_begin("lifecycle: %s", hs.c_str())) { exec(hist); note_nontrivial(hstr(hs)); }
            return;
        }
        std::vector<Sym> en; enabled(M, en);
        for (const Sym& y : en) { hist.push_back(y); dfs(apply_model(M,y)); hist.pop_back(); }
    };
    Model M0;
    int prefix=(int)spec_int(spec,"prefix",0);
    if (prefix) {
        int sh = prefix==2 ? 1 : 0;
        std::vector<Sym> pre{{Y_INIT,0,0},{Y_NEWDOM,sh,0},{Y_NEWFOREST,0,0},{Y_NEWFOREST,0,1},{Y_BUILD,0,0},{Y_BUILD,1,1}};
        // prefix=3: an iterator over an integer set forest outlives cleanup(); a second library instance and a domain exist again
        if (prefix==3) pre = {{Y_INIT,0,0},{Y_NEWDOM,0,0},{Y_NEWFOREST,0,1},{Y_BUILD,0,0},{Y_ITER,0,0},{Y_CLEANUP,0,0},{Y_INIT,0,0},{Y_NEWDOM,0,0}};
        for (const Sym& y : pre) { hist.push_back(y); M0 = apply_model(M0,y); }
        depth += (int)hist.size();
    }
    dfs(M0);
}
int main(int argc, char** argv) { return std_main(argc, argv, list_units, run_unit); }
