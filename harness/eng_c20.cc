// C20 saturation over a partitioned relation (pregen_relation by events / by levels, every splitting option) equals
// reachability over the union of the events.
#include "common.h"
#include "sat_relations.h"

static void list_units(const std::string& tier)
{
    bool th = tier=="thorough";
    // relation forest: identity-reduced, the semantics pregen_relation and every example program assume (a skipped level is
    // identity; addToRelation files an event under its root level)
    // relation forests that are NOT identity-reduced: accepted by pregen_relation / SATURATION_FORWARD, but the partitioned
    // saturation reads a skipped level as identity; every wrong result there is the semantic class of known finding KF-C20-1
    for (const char* rr : {"F","Q"}) for (const char* sr : {"F","Q"}) printf("shape=S3,rel=%s,set=%s,len=2\n", rr, sr);
    for (const char* rr : {"I"}) for (const char* sr : {"F","Q"}) {
        for (const char* sh : {"S3","S4"}) printf("shape=%s,rel=%s,set=%s,len=2\n", sh, rr, sr);
        printf("shape=S6,rel=%s,set=%s,len=%d\n", rr, sr, th?2:1);
        if (th) { printf("shape=S3,rel=%s,set=%s,len=3\n", rr, sr); printf("shape=S7,rel=%s,set=%s,len=1\n", rr, sr); }
        // alphabet t2: every single transition on one or two variables, ordered pairs of events, EVERY initial set (the set
        // forest may skip levels that an event is rooted at)
        { int n = th?16:8; for (int i=0;i<n;i++) printf("shape=S6,rel=%s,set=%s,alpha=t2,len=2,inits=%s,part=%d/%d\n", rr, sr, th?"all":"cubes", i, n); }
        if (th) for (int i=0;i<8;i++) printf("shape=S7,rel=%s,set=%s,alpha=t2,len=2,inits=cubes,part=%d/8\n", rr, sr, i);
        // alphabet pid: partial identities (self-loop events guarded on a subset of the variables), unordered sets of up to 4
        { int n = th?8:4; for (int i=0;i<n;i++) printf("shape=S6,rel=%s,set=%s,alpha=pid,len=%d,part=%d/%d\n", rr, sr, 4, i, n); }
        if (th) for (int i=0;i<8;i++) printf("shape=S7,rel=%s,set=%s,alpha=pid,len=3,part=%d/8\n", rr, sr, i);
        // alphabet u2: events that are unions of two 2-variable transitions, ordered triples thinned deterministically
        { int n = th?16:4; for (int i=0;i<n;i++) printf("shape=S6,rel=%s,set=%s,alpha=u2,len=3,part=%d/%d\n", rr, sr, i, n); }
    }
}

// event catalogue: local relation on a subset J of variables (|J|<=2) x identity elsewhere
struct Event { Table t; std::string name; };
static std::vector<Event> catalogue(const Shape& s, const std::string& alpha)
{
    std::vector<Event> ev;
    long RP = s.relPoints();
    int x[16], xp[16];
    if (alpha=="pid") {
        // g[v] in {-1 (any), 0..b-1}: the relation { x -> x : x[v]==g[v] where g[v]>=0 }
        std::vector<int> g(s.K()+1,-1);
        for (;;) {
            int v=1; for (; v<=s.K(); v++) { if (++g[v] < s.b[v-1]) break; g[v]=-1; }
            if (v>s.K()) break;
            Event e; e.t.assign(RP,0.0); e.name="id";
            for (int w=1; w<=s.K(); w++) if (g[w]>=0) { char nm[16]; snprintf(nm,sizeof nm,"[x%d=%d]",w,g[w]); e.name+=nm; }
            for (long p=0;p<RP;p++) { decode_rel(s,p,x,xp); bool ok=true; for (int w=1; w<=s.K(); w++) { if (x[w]!=xp[w]) ok=false; if (g[w]>=0 && x[w]!=g[w]) ok=false; } e.t[p]=ok; }
            ev.push_back(e);
        }
        return ev;
    }
    if (alpha=="u2") {
        // unions of two single transitions on the same ordered pair of variables (v above w or below), identity elsewhere
        for (int v=1; v<=s.K(); v++) for (int w=1; w<=s.K(); w++) if (v!=w) {
            int bv=s.b[v-1], bw=s.b[w-1]; int nt = bv*bv*bw*bw;
            if (v>w) continue;
            for (int t1=0; t1<nt; t1++) for (int t2=t1+1; t2<nt; t2++) {
                if ((t1*31+t2*17+v*5+w) % 7) continue;     // deterministic thinning
                Event e; e.t.assign(RP,0.0); char nm[96]; int q[2]={t1,t2}; std::string name;
                for (int k2=0;k2<2;k2++) { int t=q[k2]; int a=t%bv; t/=bv; int c=t%bv; t/=bv; int b2=t%bw; t/=bw; int d2=t;
                    snprintf(nm,sizeof nm,"%sx%dx%d:%d%d>%d%d",k2?"+":"",v,w,a,b2,c,d2); name+=nm;
                    for (long p=0;p<RP;p++) { decode_rel(s,p,x,xp); bool ok = x[v]==a && xp[v]==c && x[w]==b2 && xp[w]==d2; for (int u=1;u<=s.K();u++) if (u!=v && u!=w && x[u]!=xp[u]) ok=false; if (ok) e.t[p]=1; } }
                e.name=name; ev.push_back(e);
            }
        }
        return ev;
    }
    const bool thin2 = alpha!="t2";
    // |J| = 1: every boolean relation on variable v (2^(b*b) of them; b=2: 16, b=3: 512 -> thin to the 1-point family + a few)
    for (int v=1; v<=s.K(); v++) {
        int b=s.b[v-1]; unsigned long n = 1UL<<(b*b);
        std::vector<unsigned long> locals;
        if (n<=16) for (unsigned long g=1; g<n; g++) locals.push_back(g);
        else { for (int c=0;c<b*b;c++) locals.push_back(1UL<<c); locals.push_back(n-1); locals.push_back(0x111 & (n-1)); locals.push_back(0x0a2 & (n-1)); locals.push_back(0x155 & (n-1)); }
        for (unsigned long g : locals) {
            Event e; e.t.assign(RP,0.0); char nm[64]; snprintf(nm,sizeof nm,"x%d:%lx",v,g); e.name=nm;
            for (long p=0;p<RP;p++) { decode_rel(s,p,x,xp); bool ok = (g >> (x[v]*b+xp[v])) & 1; for (int w=1; w<=s.K(); w++) if (w!=v && x[w]!=xp[w]) ok=false; e.t[p]=ok; }
            ev.push_back(e);
        }
    }
    // |J| = 2: single transitions (a,b)->(c,d) on a pair of variables, identity elsewhere (1-point family on the pair)
    for (int v=1; v<=s.K(); v++) for (int w=v+1; w<=s.K(); w++) {
        int bv=s.b[v-1], bw=s.b[w-1];
        for (int a=0;a<bv;a++) for (int c=0;c<bv;c++) for (int b2=0;b2<bw;b2++) for (int d2=0; d2<bw; d2++) {
            if (thin2 && (a*7+c*3+b2*5+d2) % 3) continue;       // deterministic thinning
            Event e; e.t.assign(RP,0.0); char nm[64]; snprintf(nm,sizeof nm,"x%dx%d:%d%d>%d%d",v,w,a,b2,c,d2); e.name=nm;
            for (long p=0;p<RP;p++) { decode_rel(s,p,x,xp); bool ok = x[v]==a && xp[v]==c && x[w]==b2 && xp[w]==d2; for (int u=1;u<=s.K();u++) if (u!=v && u!=w && x[u]!=xp[u]) ok=false; e.t[p]=ok; }
            ev.push_back(e);
        }
    }
    return ev;
}

static const char* SPLITN[5] = {"None","SplitOnly","SplitSubtract","SplitSubtractAll","MonolithicSplit"};
static pregen_relation::splittingOption splitOf(int i)
{
    switch (i) { case 0: return pregen_relation::None; case 1: return pregen_relation::SplitOnly; case 2: return pregen_relation::SplitSubtract; case 3: return pregen_relation::SplitSubtractAll; default: return pregen_relation::MonolithicSplit; }
}

static void run_unit(const std::map<std::string,std::string>& spec)
{
    Shape s = shape_by_name(spec_get(spec,"shape"));
    int len = (int)spec_int(spec,"len",2);
    Kind rk; rk.rel=true; rk.range='b'; rk.lab='m'; rk.rr=spec_get(spec,"rel")[0];
    Kind sk; sk.rel=false; sk.range='b'; sk.lab='m'; sk.rr=spec_get(spec,"set")[0];
    std::string alpha = spec_get(spec,"alpha","std"), initsel = spec_get(spec,"inits","std");
    int part=0, nparts=1; { std::string ps = spec_get(spec,"part","0/1"); sscanf(ps.c_str(),"%d/%d",&part,&nparts); }
    std::vector<Event> cat = catalogue(s, alpha);
    ctx.counters["events"]=(long)cat.size();
    long N = s.setPoints(); unsigned long US = 1UL<<N;
    std::vector<unsigned long> inits;
    if (US<=16) for (unsigned long i=0;i<US;i++) inits.push_back(i);
    else { inits = {0,1,US-1,(US-1)/3,US>>1}; for (long p=0;p<N && p<6;p++) inits.push_back(1UL<<p); }
    if (initsel=="all" && US<=256) { inits.clear(); for (unsigned long i=0;i<US;i++) inits.push_back(i); }
    if (initsel=="cubes") {
        // every cube: each variable fixed to a value or free (the sets whose fully-reduced diagram skips levels), plus two non-cubes
        inits.clear(); std::vector<int> g(s.K()+1,-1); int y[16];
        for (;;) { unsigned long m=0; for (long p=0;p<N;p++) { decode_set(s,p,y); bool ok=true; for (int w=1;w<=s.K();w++) if (g[w]>=0 && y[w]!=g[w]) ok=false; if (ok) m|=1UL<<p; } inits.push_back(m);
            int v=1; for (; v<=s.K(); v++) { if (++g[v] < s.b[v-1]) break; g[v]=-1; } if (v>s.K()) break; }
        inits.push_back(0); inits.push_back((US-1)/3 ^ 1);
    }
    if (alpha=="pid") inits = {1,(US-1)/3,US-1,US>>1};
    int x[16], xp[16];
    // event lists of length <= len (ordered, repetition allowed for len 2)
    std::vector<std::vector<int>> lists;
    const int C = (int)cat.size();
    if (alpha=="pid") {
        // unordered sets of 1..len events
        for (int a=0;a<C;a++) { lists.push_back({a});
            if (len>=2) for (int b=a+1;b<C;b++) { lists.push_back({a,b});
                if (len>=3) for (int c=b+1;c<C;c++) { lists.push_back({a,b,c});
                    if (len>=4) for (int e=c+1;e<C;e++) lists.push_back({a,b,c,e}); } } }
    } else if (alpha=="u2") {
        for (int a=0;a<C;a++) for (int b=0;b<C;b++) for (int c=0;c<C;c++) if ((a*13+b*7+c*3)%97==0 && a!=b && b!=c) lists.push_back({a,b,c});
    } else {
    for (int a=0;a<(int)cat.size();a++) lists.push_back({a});
    if (len>=2) for (int a=0;a<(int)cat.size();a++) for (int b=0;b<(int)cat.size();b++) lists.push_back({a,b});
    if (len>=3) { std::vector<int> one; for (int a=0;a<(int)cat.size();a++) if (cat[a].name.find('x',1)==std::string::npos) one.push_back(a); for (int a : one) for (int b : one) for (int c : one) if ((a+b*3+c*5)%4==0) lists.push_back({a,b,c}); }
    }
    if (nparts>1) { std::vector<std::vector<int>> mine; for (size_t i=0;i<lists.size();i++) if ((int)(i%nparts)==part) mine.push_back(lists[i]); lists.swap(mine); }
    ctx.counters["event_lists"]=(long)lists.size();

    for (auto& L : lists) {
        if (ctx.stop) break;
        // union relation and its closure per initial set
        Table un(s.relPoints(),0.0); for (int a : L) for (long p=0;p<s.relPoints();p++) if (cat[a].t[p]!=0) un[p]=1;
        std::vector<std::vector<long>> succ(N);
        for (long p=0;p<s.relPoints();p++) if (un[p]!=0) { decode_rel(s,p,x,xp); succ[encode_set(s,x)].push_back(encode_set(s,xp)); }
        std::string lname; for (int a : L) { lname += cat[a].name; lname += ' '; }
        for (int byLevels=0; byLevels<2; byLevels++) for (int sp=0; sp<5; sp++) {
            if (!byLevels && sp!=2) continue;      // the splitting option only applies to "by levels"
            // fresh library instance per (list, mode): pregen_relation/saturation objects are not reusable across relations
            lib_init();
            domain* d = make_domain(s);
            forest* FR = make_forest(d,rk,Pol()); forest* FS = make_forest(d,sk,Pol());
            if (FR && FS) {
                bool built=false;
                saturation_operation* sat = nullptr;
                pregen_relation* pr = nullptr;
                Builder BR(FR,rk,s), BS(FS,sk,s);
                try {
                    pr = byLevels ? new pregen_relation(FR) : new pregen_relation(FR, (unsigned)L.size());
                    for (int a : L) { dd_edge e(FR); BR.build(cat[a].t, e); pr->addToRelation(e); }
                    pr->finalize(splitOf(sp));
                    sat = SATURATION_FORWARD(FS, pr, FS);
                    built = sat!=nullptr;
                    if (!built) { char b[96]; snprintf(b,sizeof b,"SATURATION_FORWARD(set %s, rel %s): null", sk.name().c_str(), rk.name().c_str()); if (declined_once.insert(b).second) declined("%s",b); }
                } catch (MEDDLY::error e) {
                    if (case_begin("C20 shape=%s rel=%s set=%s %s split=%s events=[ %s] : build", s.name.c_str(), rk.name().c_str(), sk.name().c_str(), byLevels?"by-levels":"by-events", SPLITN[sp], lname.c_str()))
                        violation("build-error","building the partitioned relation threw %s (%s:%u)", e.getName(), e.getFile(), e.getLine());
                }
                if (built) {
                    dd_edge uni(FR); BR.build(un, uni);
                    binary_operation* trad = get_bop(REACHABLE_TRAD_NOFS(true),FS,FR,FS,"REACHABLE_TRAD_NOFS");
                    for (unsigned long si : inits) {
                        if (!case_begin("C20 shape=%s rel=%s set=%s %s split=%s events=[ %s] init=f%lu", s.name.c_str(), rk.name().c_str(), sk.name().c_str(), byLevels?"by-levels":"by-events", SPLITN[sp], lname.c_str(), si)) continue;
                        Table it(N), want(N,0.0); for (long p=0;p<N;p++) it[p]=(si>>p)&1;
                        { std::vector<long> st; for (long p=0;p<N;p++) if (it[p]!=0) { want[p]=1; st.push_back(p); } while (!st.empty()) { long a=st.back(); st.pop_back(); for (long b : succ[a]) if (want[b]==0) { want[b]=1; st.push_back(b); } } }
                        try {
                            dd_edge init(FS), r(FS), r2(FS);
                            BS.build(it, init);
                            sat->compute(init, r);
                            std::string err = check_result(r,sk,s,want,true);
                            const bool nonid = rk.rr!='I';
                            if (!err.empty()) violation(nonid ? "pregen-relation-forest-not-identity-reduced" : (err.compare(0,12,"NONCANONICAL")==0?"noncanonical-result":"wrong-result"),"union relation [%s] initial [%s]: %s", tab_str(un).c_str(), tab_str(it).c_str(), err.c_str());
                            if (trad) { trad->compute(init, uni, r2); if (r2!=r && err.empty()) violation(nonid ? "pregen-relation-forest-not-identity-reduced" : "differs-from-monolithic","saturation over the partition and REACHABLE_TRAD_NOFS over the union return different edges"); }
                        } catch (MEDDLY::error e) { violation("op-error","threw %s (%s:%u)", e.getName(), e.getFile(), e.getLine()); }
                        if (want!=it) note_nontrivial(hstr(ctx.cur));
                    }
                    std::string a = audit_forest(FS,sk); if (!a.empty() && case_begin("C20 audit set forest after events=[ %s]", lname.c_str())) violation("audit","%s",a.c_str());
                }
            }
            domain::destroy(d);
            lib_done();
            if (ctx.viol>ctx.maxviol && ctx.only<0 && ctx.upto<0) ctx.stop=true;
        }
    }
}
int main(int argc, char** argv) { return std_main(argc, argv, list_units, run_unit); }
