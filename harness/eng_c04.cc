// C04 set algebra: UNION / INTERSECTION / DIFFERENCE / COMPLEMENT / CROSS on boolean forests,
// every operand pair of the universe (or U x B, B x U beyond the cap), every forest-assignment pattern.
#include "common.h"

static const char* RULES_SET = "FQ";
static const char* RULES_REL = "FQI";

// forest-assignment pattern: rule and object number for a, b, c
struct Pat { char ra, rb, rc; int oa, ob, oc; std::string name() const { char b[32]; snprintf(b,sizeof b,"%c%d%c%d%c%d",ra,oa,rb,ob,rc,oc); return b; } };
static std::vector<Pat> patterns(const char* rules, char ruleA)
{
    std::vector<Pat> v;
    for (const char* rb=rules; *rb; ++rb) for (const char* rc=rules; *rc; ++rc) {
        // object numbers: a is object 0 of its rule; b/c either share an earlier object of the same rule or take a new one
        for (int ob=0; ob<2; ob++) {
            if (*rb!=ruleA && ob!=0) continue;           // different rule: first object of that rule
            for (int oc=0; oc<3; oc++) {
                int maxc = 0;
                if (*rc==ruleA) maxc = 1;
                if (*rc==*rb) maxc = std::max(maxc, ob+1);
                if (*rc==ruleA && *rc==*rb) maxc = (ob==0) ? 1 : 2;
                if (*rc!=ruleA && *rc!=*rb) maxc = 0;
                if (oc>maxc) continue;
                // canonical naming: object numbers are used in order of first appearance within a rule
                Pat p{ruleA,*rb,*rc,0,ob,oc};
                // b's object: if same rule as a: ob in {0 (same object), 1 (new)}; else 0
                // c's object: must be an object already used for that rule, or the next new one
                std::set<int> used;
                if (*rc==ruleA) used.insert(0);
                if (*rc==*rb) used.insert(ob);
                int next = used.empty() ? 0 : (*used.rbegin())+1;
                if (!used.count(oc) && oc!=next) continue;
                v.push_back(p);
            }
        }
    }
    return v;
}

static void list_units(const std::string& tier)
{
    bool th = tier=="thorough";
    for (const char* sh : {"S1","S2","S3","S4","S5"}) for (const char* r=RULES_SET; *r; ++r)
        printf("sr=S,shape=%s,ra=%c,pairs=all,order=fwd\n", sh, *r);
    for (const char* r=RULES_SET; *r; ++r) printf("sr=S,shape=S6,ra=%c,pairs=%s,order=fwd\n", *r, th?"all":"fam");
    for (const char* r=RULES_REL; *r; ++r) printf("sr=R,shape=S1,ra=%c,pairs=all,order=fwd\n", *r);
    if (!th) {
        for (const char* r=RULES_REL; *r; ++r) printf("sr=R,shape=S2,ra=%c,pairs=fam0,order=fwd\n", *r);
        for (const char* r=RULES_REL; *r; ++r) printf("sr=R,shape=S3,ra=%c,pairs=famfam,order=fwd\n", *r);
    } else {
        for (const char* r=RULES_REL; *r; ++r) for (int op=0; op<3; op++) printf("sr=R,shape=S2,ra=%c,pairs=all,order=fwd,op=%d\n", *r, op);
        for (const char* r=RULES_REL; *r; ++r) for (int op=0; op<3; op++) printf("sr=R,shape=S3,ra=%c,pairs=fam0,order=fwd,op=%d,distinct=1\n", *r, op);
        for (const char* r=RULES_REL; *r; ++r) printf("sr=R,shape=S3,ra=%c,pairs=famfam,order=fwd\n", *r);
    }
    // relations over three variables (64 points; diagrams that skip the middle level): operands are "event" relations (single
    // transitions with identity elsewhere) x unions of two events, and the 1-point structured family squared
    for (const char* r=RULES_REL; *r; ++r) if (th || *r=='I') for (int op=0; op<3; op++) printf("sr=R,shape=S6,ra=%c,pairs=evev,order=fwd,op=%d\n", *r, op);
    if (th) for (const char* r=RULES_REL; *r; ++r) for (int op=0; op<3; op++) printf("sr=R,shape=S6,ra=%c,pairs=famfam0,order=fwd,op=%d\n", *r, op);
    printf("sr=R,shape=S6,mode=unary\n");
    // complement and cross
    for (const char* sh : {"S1","S2","S3","S4","S5","S6"}) printf("sr=S,shape=%s,mode=unary\n", sh);
    for (const char* sh : {"S1","S2","S3"}) printf("sr=R,shape=%s,mode=unary\n", sh);
    for (const char* sh : {"S1","S2","S3","S4"}) printf("shape=%s,mode=cross\n", sh);
    if (th) {
        for (const char* sh : {"S3","S4","S5"}) for (const char* r=RULES_SET; *r; ++r) for (const char* o : {"rev","clr"})
            printf("sr=S,shape=%s,ra=%c,pairs=all,order=%s\n", sh, *r, o);
        for (const char* r=RULES_REL; *r; ++r) for (const char* o : {"rev","clr"}) printf("sr=R,shape=S2,ra=%c,pairs=fam0,order=%s\n", *r, o);
        for (const char* r=RULES_SET; *r; ++r) printf("sr=S,shape=S7,ra=%c,pairs=fam0,order=fwd\n", *r);
        for (const char* r=RULES_SET; *r; ++r) printf("sr=S,shape=S8,ra=%c,pairs=famfam,order=fwd\n", *r);
    }
}

static const char* OPN[3] = {"UNION","INTERSECTION","DIFFERENCE"};
static std::vector<std::string> g_patnames;
static void fmt_pair(char* buf, size_t n, const long* a)
{
    snprintf(buf, n, "%s pattern=%s a=f%lu b=f%lu alias=%ld (bool function numbers are their truth tables, point 0 = bit 0)", OPN[a[0]], g_patnames[a[1]].c_str(), (unsigned long)a[2], (unsigned long)a[3], a[4]);
}

static void run_binary(const std::map<std::string,std::string>& spec)
{
    bool rel = spec_get(spec,"sr")=="R";
    Shape s = shape_by_name(spec_get(spec,"shape"));
    char ra = spec_get(spec,"ra")[0];
    std::string pairs = spec_get(spec,"pairs","all");
    std::string order = spec_get(spec,"order","fwd");
    const char* rules = rel ? RULES_REL : RULES_SET;
    std::vector<Pat> pats = patterns(rules, ra);
    long P = s.points(rel);
    const bool big = P>=24;                              // universe not enumerable: operands come from families, built lazily
    unsigned long U = big ? 0 : 1UL<<P;
    const unsigned long MASK = P>=64 ? ~0UL : (1UL<<P)-1;

    lib_init();
    domain* d = make_domain(s);
    // forest objects: per rule up to 3 copies
    std::map<std::string,Universe*> objs;
    auto get_obj = [&](char r, int o)->Universe* {
        std::string key; key+=r; key+=char('0'+o);
        auto it = objs.find(key); if (it!=objs.end()) return it->second;
        Kind k; k.rel=rel; k.range='b'; k.lab='m'; k.rr=r;
        forest* F = make_forest(d,k,Pol());
        Universe* u = new Universe();
        if (F) u->build(F,k,s,{0,1}); else u->F=nullptr;
        objs[key]=u; return u;
    };
    std::vector<unsigned long> fam;
    { Kind k; k.rel=rel; k.range='b';
      // fam: rules (1) with <=2 points, (2), (3);  fam0: rule (1) with <=1 point only;  famfam: B x B with B = fam
      fam = (pairs=="fam0" || pairs=="famfam0") ? structured_family(k,s,{0,1},1,pairs=="famfam0") : structured_family(k,s,{0,1},2,true); }
    std::vector<unsigned long> ev1, ev2; if (pairs=="evev") { ev1 = event_masks(s,false); ev2 = event_masks(s,true); ctx.counters["events"]=(long)ev1.size(); ctx.counters["event_unions"]=(long)ev2.size(); }
    if (big && pairs!="famfam" && pairs!="famfam0" && pairs!="evev") { declined("shape %s: universe not enumerable, pairs=%s not supported", s.name.c_str(), pairs.c_str()); lib_done(); return; }
    const int only_op = (int)spec_int(spec,"op",-1);
    const bool only_distinct = spec_int(spec,"distinct",0)!=0;
    ctx.counters["universe"] = (long)U;
    ctx.counters["family"] = (long)fam.size();

    for (size_t pi=0; pi<pats.size() && !ctx.stop; pi++) {
        const Pat& p = pats[pi];
        g_patnames.push_back(p.name());
        Universe* A = get_obj(p.ra,p.oa); Universe* B = get_obj(p.rb,p.ob); Universe* C = get_obj(p.rc,p.oc);
        if (!A->F || !B->F || !C->F) continue;
        if (only_distinct && (A->F==B->F || A->F==C->F || B->F==C->F)) continue;
        for (int op=0; op<3 && !ctx.stop; op++) {
            if (only_op>=0 && op!=only_op) continue;
            binary_operation* bop = get_bop(op==0?UNION():op==1?INTERSECTION():DIFFERENCE(), A->F,B->F,C->F, OPN[op]);
            if (!bop) continue;
            dd_edge r(C->F);
            auto one = [&](unsigned long i, unsigned long j) {
                unsigned long e = op==0 ? (i|j) : op==1 ? (i&j) : (i & ~j & MASK);
                // every sub-case takes a case number whether or not it is executed, so numbering is the same in replays
                if (case_lazy(fmt_pair, op, (long)pi, (long)i, (long)j, 0)) {
                    if (order=="clr") { A->F->removeAllComputeTableEntries(); }
                    bool threw=false;
                    try {
                        bop->compute(A->get(i), B->get(j), r);
                    } catch (MEDDLY::error er) { violation("op-error","threw %s (%s:%u)", er.getName(), er.getFile(), er.getLine()); threw=true; }
                    if (!threw && r != C->get(e)) {
                        Table x; read_eval(r,C->k,s,x);
                        violation(tab_eq(C->k,x,C->table(e)) ? "noncanonical-result" : "wrong-result", "result reads [%s], expected f%lu = [%s]", tab_str(x).c_str(), e, tab_str(C->table(e)).c_str());
                    }
                    if (e!=i && e!=j && e!=0 && e!=MASK) note_nontrivial(hmix(hmix(hmix(op,pi), i), j));
                }
                // aliasing of the result edge with an operand edge (in-place use)
                if (A->F==C->F && case_lazy(fmt_pair, op, (long)pi, (long)i, (long)j, 1)) {
                    dd_edge t(A->get(i));
                    try { bop->compute(t, B->get(j), t); if (t != C->get(e)) violation("wrong-result-alias", "with the result edge aliasing operand a: result differs from f%lu", e); }
                    catch (MEDDLY::error er) { violation("op-error","threw %s (%s:%u)", er.getName(), er.getFile(), er.getLine()); }
                }
                if (B->F==C->F && case_lazy(fmt_pair, op, (long)pi, (long)i, (long)j, 2)) {
                    dd_edge t(B->get(j));
                    try { bop->compute(A->get(i), t, t); if (t != C->get(e)) violation("wrong-result-alias", "with the result edge aliasing operand b: result differs from f%lu", e); }
                    catch (MEDDLY::error er) { violation("op-error","threw %s (%s:%u)", er.getName(), er.getFile(), er.getLine()); }
                }
                if (A->F==B->F && i==j && case_lazy(fmt_pair, op, (long)pi, (long)i, (long)j, 3)) {
                    try { bop->compute(A->get(i), A->get(i), r); if (r != C->get(e)) violation("wrong-result-alias", "with both operands the same edge object: result differs from f%lu", e); }
                    catch (MEDDLY::error er) { violation("op-error","threw %s (%s:%u)", er.getName(), er.getFile(), er.getLine()); }
                }
            };
            if (pairs=="all") {
                if (order=="rev") { for (unsigned long i=U; i-- > 0 && !ctx.stop;) for (unsigned long j=U; j-- > 0;) one(i,j); }
                else for (unsigned long i=0;i<U && !ctx.stop;i++) { for (unsigned long j=0;j<U;j++) one(i,j); if (ctx.viol>ctx.maxviol && ctx.only<0 && ctx.upto<0) break; }
            } else if (pairs=="evev") {
                for (unsigned long i : ev1) { if (ctx.stop) break; for (unsigned long j : ev2) { one(i,j); one(j,i); } if (ctx.viol>ctx.maxviol && ctx.only<0 && ctx.upto<0) break; }
            } else if (pairs=="famfam" || pairs=="famfam0") {
                for (unsigned long i : fam) { if (ctx.stop) break; for (unsigned long j : fam) one(i,j); if (ctx.viol>ctx.maxviol && ctx.only<0 && ctx.upto<0) break; }
            } else {
                for (unsigned long i=0;i<U && !ctx.stop;i++) { for (unsigned long j : fam) one(i,j); if (ctx.viol>ctx.maxviol && ctx.only<0 && ctx.upto<0) break; }
                for (unsigned long i : fam) { if (ctx.stop) break; for (unsigned long j=0;j<U;j++) one(i,j); if (ctx.viol>ctx.maxviol && ctx.only<0 && ctx.upto<0) break; }
            }
            r.detach();
            for (Universe* u : {A,B,C}) { std::string a = audit_forest(u->F,u->k); if (!a.empty()) { violation("audit","after %s sweep pattern %s: %s", OPN[op], p.name().c_str(), a.c_str()); ctx.stop=true; break; } }
        }
    }
    // operands are never changed
    for (auto& kv : objs) if (kv.second->F) { std::string e = kv.second->recheck(); if (!e.empty()) { snprintf(ctx.cur,sizeof ctx.cur,"re-read universe of forest object %s",kv.first.c_str()); lz_fn_reset(); violation("operand-changed","%s",e.c_str()); } }
    for (auto& kv : objs) { kv.second->clear(); }
    domain::destroy(d);
    lib_done();
}

static void fmt_un(char* buf, size_t n, const long* a)
{
    snprintf(buf, n, "COMPLEMENT %c->%c sameforest=%ld a=f%ld alias=%ld", (char)a[0], (char)a[1], a[2], a[3], a[4]);
}
static void run_unary(const std::map<std::string,std::string>& spec)
{
    bool rel = spec_get(spec,"sr")=="R";
    Shape s = shape_by_name(spec_get(spec,"shape"));
    const char* rules = rel ? RULES_REL : RULES_SET;
    long P = s.points(rel); const bool big = P>=24; unsigned long U = big ? 0 : 1UL<<P; const unsigned long MASK = P>=64 ? ~0UL : (1UL<<P)-1;
    std::vector<unsigned long> dom;
    if (!big) for (unsigned long i=0;i<U;i++) dom.push_back(i);
    else { Kind k; k.rel=rel; k.range='b'; dom = structured_family(k,s,{0,1},1,true); for (unsigned long m : event_masks(s,true)) dom.push_back(m); size_t n=dom.size(); for (size_t i=0;i<n;i++) dom.push_back(~dom[i] & MASK); std::sort(dom.begin(),dom.end()); dom.erase(std::unique(dom.begin(),dom.end()),dom.end()); }
    lib_init();
    domain* d = make_domain(s);
    std::map<std::string,Universe*> objs;
    for (const char* r=rules; *r; ++r) for (int o=0;o<2;o++) {
        Kind k; k.rel=rel; k.range='b'; k.lab='m'; k.rr=*r;
        forest* F = make_forest(d,k,Pol());
        Universe* u = new Universe(); if (F) u->build(F,k,s,{0,1});
        std::string key; key+=*r; key+=char('0'+o); objs[key]=u;
    }
    for (const char* ra=rules; *ra; ++ra) for (const char* rc=rules; *rc; ++rc) for (int same=0; same<2; same++) {
        if (same && *ra!=*rc) continue;
        std::string ka; ka+=*ra; ka+='0'; std::string kc; kc+=*rc; kc+= (same||*ra!=*rc) ? '0' : '1';
        Universe* A=objs[ka]; Universe* C=objs[kc];
        if (!A->F || !C->F) continue;
        unary_operation* uop = get_uop(COMPLEMENT(), A->F, C->F, "COMPLEMENT");
        if (!uop) continue;
        dd_edge r(C->F);
        for (unsigned long i : dom) {
            unsigned long e = ~i & MASK;
            if (case_lazy(fmt_un, *ra, *rc, same, (long)i, 0)) {
                try {
                    uop->compute(A->get(i), r);
                    if (r != C->get(e)) { Table x; read_eval(r,C->k,s,x); violation(tab_eq(C->k,x,C->table(e))?"noncanonical-result":"wrong-result","result reads [%s], expected [%s]", tab_str(x).c_str(), tab_str(C->table(e)).c_str()); }
                } catch (MEDDLY::error er) { violation("op-error","threw %s (%s:%u)", er.getName(), er.getFile(), er.getLine()); }
                if (i!=0 && i!=MASK) note_nontrivial(hmix(hmix(*ra,*rc)+same, i));
            }
            if (A->F==C->F && case_lazy(fmt_un, *ra, *rc, same, (long)i, 1)) {
                try { dd_edge t(A->get(i)); uop->compute(t,t);
                  if (t != C->get(e)) violation("wrong-result-alias","in-place complement differs from expected"); }
                catch (MEDDLY::error er) { violation("op-error","threw %s (%s:%u)", er.getName(), er.getFile(), er.getLine()); }
            }
        }
        r.detach();
        for (Universe* u : {A,C}) { std::string a = audit_forest(u->F,u->k); if (!a.empty()) violation("audit","%s",a.c_str()); }
    }
    for (auto& kv : objs) if (kv.second->F) { std::string e = kv.second->recheck(); if (!e.empty()) violation("operand-changed","%s",e.c_str()); }
    for (auto& kv : objs) kv.second->clear();
    domain::destroy(d);
    lib_done();
}

static void fmt_cross(char* buf, size_t n, const long* a)
{
    snprintf(buf, n, "CROSS rules %c x %c -> %c a=f%ld b=f%ld", (char)a[0], (char)a[1], (char)a[2], a[3], a[4]);
}
static void run_cross(const std::map<std::string,std::string>& spec)
{
    Shape s = shape_by_name(spec_get(spec,"shape"));
    long P = s.setPoints(); unsigned long U = 1UL<<P;
    lib_init();
    domain* d = make_domain(s);
    std::map<char,Universe*> sets[2];
    for (int o=0;o<2;o++) for (const char* r=RULES_SET; *r; ++r) {
        Kind k; k.rel=false; k.range='b'; k.lab='m'; k.rr=*r;
        forest* F = make_forest(d,k,Pol()); Universe* u = new Universe(); if (F) u->build(F,k,s,{0,1}); sets[o][*r]=u;
    }
    int x[16], xp[16];
    for (const char* rc=RULES_REL; *rc; ++rc) {
        Kind kc; kc.rel=true; kc.range='b'; kc.lab='m'; kc.rr=*rc;
        forest* FC = make_forest(d,kc,Pol());
        if (!FC) continue;
        for (const char* ra=RULES_SET; *ra; ++ra) for (const char* rb=RULES_SET; *rb; ++rb) for (int same=0; same<2; same++) {
            if (same && *ra!=*rb) continue;
            Universe* A = sets[0][*ra]; Universe* B = sets[(same||*ra!=*rb)?0:1][*rb];
            if (!A->F||!B->F) continue;
            binary_operation* bop = get_bop(CROSS(), A->F, B->F, FC, "CROSS");
            if (!bop) continue;
            dd_edge r(FC);
            for (unsigned long i=0;i<U;i++) for (unsigned long j=0;j<U;j++) {
                if (!case_lazy(fmt_cross, *ra, *rb, *rc, (long)i, (long)j)) continue;
                Table e(s.relPoints());
                for (long p=0;p<s.relPoints();p++) { decode_rel(s,p,x,xp); long px=encode_set(s,x), py=encode_set(s,xp); e[p] = ((i>>px)&1) && ((j>>py)&1); }
                try { bop->compute(A->get(i), B->get(j), r); } catch (MEDDLY::error er) { violation("op-error","threw %s (%s:%u)", er.getName(), er.getFile(), er.getLine()); continue; }
                std::string err = check_result(r,kc,s,e);
                if (!err.empty()) violation(err.compare(0,12,"NONCANONICAL")==0?"noncanonical-result":"wrong-result","%s",err.c_str());
                if (i && j && i!=U-1 && j!=U-1) note_nontrivial(hmix(hmix(*ra,*rb)+*rc, i*U+j));
            }
            r.detach();
            std::string a = audit_forest(FC,kc); if (!a.empty()) violation("audit","%s",a.c_str());
        }
    }
    for (int o=0;o<2;o++) for (auto& kv : sets[o]) if (kv.second->F) { std::string e = kv.second->recheck(); if (!e.empty()) violation("operand-changed","%s",e.c_str()); kv.second->clear(); }
    domain::destroy(d);
    lib_done();
}

static void run_unit(const std::map<std::string,std::string>& spec)
{
    std::string m = spec_get(spec,"mode","binary");
    if (m=="unary") run_unary(spec); else if (m=="cross") run_cross(spec); else run_binary(spec);
}
int main(int argc, char** argv) { return std_main(argc, argv, list_units, run_unit); }
