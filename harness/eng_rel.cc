// C08 reachability (least fixed point, all algorithms agree, distances) and C09 one-step image / vector-matrix products.
#include "common.h"

static std::string g_unit;
static void fmt_case(char* buf, size_t n, const long* a)
{
    snprintf(buf,n,"%s %s set=f%ld rel=f%ld (function numbers = base-|V| digits of the truth table, point 0 least significant)", g_unit.c_str(), (const char*)a[0], a[1], a[2]);
}

// explicit graph of a relation table
struct Graph { long N; std::vector<std::vector<long>> succ, pred; };
static Graph graph_of(const Shape& s, const Table& rel)
{
    Graph g; g.N = s.setPoints(); g.succ.assign(g.N,{}); g.pred.assign(g.N,{});
    int x[16], xp[16];
    for (long p=0;p<s.relPoints();p++) { if (rel[p]==0) continue; decode_rel(s,p,x,xp); long a=encode_set(s,x), b=encode_set(s,xp); g.succ[a].push_back(b); g.pred[b].push_back(a); }
    return g;
}
// distances: result(s) = min over s0 of init(s0) + (length of a shortest path s0 ->* s); INF where none.  unit weights => Bellman-Ford by rounds
static Table dist_model(const Graph& g, const Table& init, bool fwd)
{
    Table d = init;
    for (long round=0; round<=g.N; round++) {
        bool ch=false;
        for (long a=0;a<g.N;a++) { if (d[a]==INF) continue; for (long b : (fwd?g.succ[a]:g.pred[a])) if (d[a]+1 < d[b]) { d[b]=d[a]+1; ch=true; } }
        if (!ch) break;
    }
    return d;
}
static Table image_model(const Graph& g, const Table& set, bool pre)
{
    Table out(g.N,0.0);
    for (long a=0;a<g.N;a++) if (set[a]!=0) for (long b : (pre?g.pred[a]:g.succ[a])) out[b]=1;
    return out;
}

static void list_units(const std::string& tier)
{
    bool th = tier=="thorough";
    const char* P = getenv("VERIF_PROP"); std::string prop = P ? P : "";
    if (prop=="C08") {
        for (const char* rr : {"F","Q","I"}) for (const char* sr : {"F","Q"}) {
            printf("mode=reach,shape=S1,rel=%s,set=%s,rels=all\n", rr, sr);
            printf("mode=reach,shape=S2,rel=%s,set=%s,rels=all\n", rr, sr);
            printf("mode=reach,shape=S3,rel=%s,set=%s,rels=%s\n", rr, sr, th?"all":"fam");
            printf("mode=reach,shape=S4,rel=%s,set=%s,rels=%s\n", rr, sr, th?"fam":"fam0");
            if (th) printf("mode=reach,shape=S6,rel=%s,set=%s,rels=fam0\n", rr, sr);
            // three levels, relations that are unions of two "events" (single transitions with identity elsewhere), every cube as initial set
            if (th || rr[0]=='I') printf("mode=reach,shape=S6,rel=%s,set=%s,rels=ev2\n", rr, sr);
            if (th) printf("mode=dist,shape=S6,rel=%s,set=%s,rels=%s\n", rr, sr, rr[0]=='I'?"ev2":"ev1");
            // guarded events over a background task on sizes (3,4): every set of <= 4 events, EV+ distance and boolean saturation vs explicit search
            if (th || rr[0]=='I') for (int i=0;i<8;i++) printf("mode=gev,shape=S13,rel=%s,set=%s,k=4,part=%d/8\n", rr, sr, i);
            printf("mode=dist,shape=S1,rel=%s,set=%s,rels=all\n", rr, sr);
            printf("mode=dist,shape=S2,rel=%s,set=%s,rels=%s\n", rr, sr, "all");
            printf("mode=dist,shape=S3,rel=%s,set=%s,rels=%s\n", rr, sr, th?"fam":"fam0");
        }
    } else {
        for (const char* rr : {"F","Q","I"}) for (const char* sr : {"F","Q"}) {
            for (const char* sh : {"S1","S2"}) printf("mode=image,shape=%s,rel=%s,set=%s,rels=all\n", sh, rr, sr);
            printf("mode=image,shape=S3,rel=%s,set=%s,rels=%s\n", rr, sr, th?"all":"fam");
            printf("mode=image,shape=S4,rel=%s,set=%s,rels=%s\n", rr, sr, th?"fam":"fam0");
            printf("mode=image,shape=S5,rel=%s,set=%s,rels=fam0\n", rr, sr);
            if (th || rr[0]=='I') printf("mode=image,shape=S6,rel=%s,set=%s,rels=ev2\n", rr, sr);
            for (const char* ty : {"MTi","MTr"}) {
                printf("mode=vm,ty=%s,shape=S1,rel=%s,set=%s,rels=all\n", ty, rr, sr);
                printf("mode=vm,ty=%s,shape=S2,rel=%s,set=%s,rels=fam0\n", ty, rr, sr);
                if (th) printf("mode=vm,ty=%s,shape=S3,rel=%s,set=%s,rels=fam0\n", ty, rr, sr);
            }
        }
    }
}

static std::vector<unsigned long> rel_indices(const Kind& rk, const Shape& s, const std::vector<double>& V, const std::string& sel)
{
    unsigned long U = ipow(V.size(), s.relPoints());
    std::vector<unsigned long> v;
    if (sel=="all") { for (unsigned long i=0;i<U;i++) v.push_back(i); return v; }
    if (sel=="ev1" || sel=="ev2") {
        // "event" relations: a single transition on one or two variables, identity on every other variable; ev2 = unions of two events
        // (the shapes of relation the saturation algorithms split by level); needs relPoints <= 64 so that a relation is a bit mask
        v = event_masks(s, sel=="ev2");
        return v;
    }
    return sel=="fam0" ? structured_family(rk,s,V,1,true) : structured_family(rk,s,V,2,true);
}

// ---- boolean reachability: all algorithms, both directions, equal edges ----
static void run_reach(const std::map<std::string,std::string>& spec)
{
    Shape s = shape_by_name(spec_get(spec,"shape"));
    Kind rk; rk.rel=true; rk.range='b'; rk.lab='m'; rk.rr=spec_get(spec,"rel")[0];
    Kind sk; sk.rel=false; sk.range='b'; sk.lab='m'; sk.rr=spec_get(spec,"set")[0];
    g_unit = "reach shape="+s.name+" rel="+rk.name()+" set="+sk.name();
    lib_init();
    domain* d = make_domain(s);
    forest* FR = make_forest(d,rk,Pol()); forest* FS = make_forest(d,sk,Pol());
    Kind sk2 = sk; sk2.rr = sk.rr=='F'?'Q':'F'; forest* FS2 = make_forest(d,sk2,Pol());   // a second set forest sharing the relation forest
    std::vector<unsigned long> rels = rel_indices(rk,s,{0,1},spec_get(spec,"rels","all"));
    long N = s.setPoints(); unsigned long US = 1UL<<N;
    Universe Sets; Sets.build(FS,sk,s,{0,1});
    Universe Sets2; if (FS2) Sets2.build(FS2,sk2,s,{0,1});
    struct Alg { const char* nm; binary_operation* op; bool fwd; };
    std::vector<Alg> algs;
    for (int fw=1; fw>=0; fw--) {
        algs.push_back({fw?"TRAD_FS(fwd)":"TRAD_FS(bwd)", get_bop(REACHABLE_TRAD_FS(fw),FS,FR,FS,"REACHABLE_TRAD_FS"), (bool)fw});
        algs.push_back({fw?"TRAD_NOFS(fwd)":"TRAD_NOFS(bwd)", get_bop(REACHABLE_TRAD_NOFS(fw),FS,FR,FS,"REACHABLE_TRAD_NOFS"), (bool)fw});
        algs.push_back({fw?"SATUR(fwd)":"SATUR(bwd)", get_bop(REACHABLE_SATUR(fw),FS,FR,FS,"REACHABLE_SATUR"), (bool)fw});
    }
    binary_operation* sat2 = (FS2 && !spec_int(spec,"nosecond",0)) ? get_bop(REACHABLE_SATUR(true),FS2,FR,FS2,"REACHABLE_SATUR(2nd set forest)") : nullptr;
    if (spec_int(spec,"onlysat",0)) { std::vector<Alg> t; for (auto& a : algs) if (!strncmp(a.nm,"SATUR",5)) t.push_back(a); algs=t; }
    Builder BR(FR,rk,s);
    // initial-set menu: all subsets when small, else a fixed covering menu
    std::vector<unsigned long> inits;
    if (US<=16 || (rels.size()*US <= 600000)) for (unsigned long i=0;i<US;i++) inits.push_back(i);
    else { inits = {0,1,US>>1,US-1,(US-1)/3}; for (long p=0;p<N;p++) inits.push_back(1UL<<p);
        // every cube (each variable fixed or free): the sets whose fully-reduced diagram skips levels
        std::vector<int> g(s.K()+1,-1); int y[16];
        for (;;) { unsigned long m=0; for (long p=0;p<N;p++) { decode_set(s,p,y); bool ok=true; for (int w=1;w<=s.K();w++) if (g[w]>=0 && y[w]!=g[w]) ok=false; if (ok) m|=1UL<<p; } if (std::find(inits.begin(),inits.end(),m)==inits.end()) inits.push_back(m);
            int v=1; for (; v<=s.K(); v++) { if (++g[v] < s.b[v-1]) break; g[v]=-1; } if (v>s.K()) break; } }
    ctx.counters["relations"]=(long)rels.size(); ctx.counters["initial_sets"]=(long)inits.size();
    dd_edge r(FS), rel(FR), r2(FS2?FS2:FS);
    long it=0;
    for (unsigned long ri : rels) {
        if (ctx.stop) break;
        Table rt = tab_from_index(ri, s.relPoints(), {0,1});
        BR.build(rt, rel);
        Graph g = graph_of(s, rt);
        for (unsigned long si : inits) {
            Table st = Sets.table(si);
            Table want[2];
            for (int fw=0; fw<2; fw++) { Table init(N); for (long p=0;p<N;p++) init[p] = st[p]!=0 ? 0.0 : INF; Table dd = dist_model(g,init,fw); want[fw].resize(N); for (long p=0;p<N;p++) want[fw][p] = dd[p]!=INF; }
            for (auto& a : algs) {
                if (!a.op) continue;
                if (!case_lazy(fmt_case, (long)a.nm, (long)si, (long)ri)) continue;
                try {
                    if (getenv("VERIF_CLEAR")) { FS->removeAllComputeTableEntries(); FR->removeAllComputeTableEntries(); }
                    a.op->compute(Sets.e[si], rel, r);
                    long ei = Sets.index_of(want[a.fwd]);
                    if (r != Sets.e[ei]) { Table x; read_eval(r,sk,s,x); violation(tab_eq(sk,x,want[a.fwd])?"noncanonical-result":"wrong-result","relation [%s] initial [%s]: result reads [%s], reachable set is [%s]", tab_str(rt).c_str(), tab_str(st).c_str(), tab_str(x).c_str(), tab_str(want[a.fwd]).c_str()); }
                } catch (MEDDLY::error e) { violation("op-error","threw %s (%s:%u)", e.getName(), e.getFile(), e.getLine()); }
                if (want[a.fwd]!=st) note_nontrivial(hmix(hstr(a.nm), ri*US+si));
            }
            // interleave a second set forest that shares the relation forest (and the operation's cached relation split)
            if (sat2 && (it++ % 3)==0 && case_lazy(fmt_case, (long)"SATUR(fwd) in 2nd set forest", (long)si, (long)ri)) {
                try { sat2->compute(Sets2.e[si], rel, r2); long ei = Sets2.index_of(want[1]); if (r2 != Sets2.e[ei]) violation("wrong-result","second set forest: saturation result differs from the reachable set"); }
                catch (MEDDLY::error e) { violation("op-error","threw %s (%s:%u)", e.getName(), e.getFile(), e.getLine()); }
            }
        }
        if (ctx.viol>ctx.maxviol && ctx.only<0 && ctx.upto<0) ctx.stop=true;
    }
    r.detach(); r2.detach(); rel.detach();
    { std::string e = Sets.recheck(); if (!e.empty()) violation("operand-changed","%s",e.c_str()); }
    Sets.clear(); Sets2.clear();
    for (auto fk : {std::make_pair(FS,sk), std::make_pair(FR,rk)}) { std::string a = audit_forest(fk.first,fk.second); if (!a.empty()) { strcpy(ctx.cur,(g_unit+" final audit").c_str()); lz_fn_reset(); violation("audit","%s",a.c_str()); } }
    domain::destroy(d);
    lib_done();
}

// ---- distance reachability: EV+ (0 / +inf) and MT int (0 / -1) ----
static void run_dist(const std::map<std::string,std::string>& spec)
{
    Shape s = shape_by_name(spec_get(spec,"shape"));
    Kind rk; rk.rel=true; rk.range='b'; rk.lab='m'; rk.rr=spec_get(spec,"rel")[0];
    g_unit = "dist shape="+s.name+" rel="+rk.name()+" set-rule="+spec_get(spec,"set");
    lib_init();
    domain* d = make_domain(s);
    forest* FR = make_forest(d,rk,Pol());
    std::vector<unsigned long> rels = rel_indices(rk,s,{0,1},spec_get(spec,"rels","all"));
    long N = s.setPoints(); unsigned long US = 1UL<<N;
    Builder BR(FR,rk,s);
    for (int evp=1; evp>=0; evp--) {
        Kind sk; sk.rel=false; sk.range='i'; sk.lab = evp?'p':'m'; sk.rr=spec_get(spec,"set")[0];
        forest* FS = make_forest(d,sk,Pol()); if (!FS) continue;
        struct Alg { const char* nm; binary_operation* op; bool fwd; };
        std::vector<Alg> algs;
        for (int fw=1; fw>=0; fw--) {
            algs.push_back({fw?"dist TRAD_NOFS(fwd)":"dist TRAD_NOFS(bwd)", get_bop(REACHABLE_TRAD_NOFS(fw),FS,FR,FS, evp?"REACHABLE_TRAD_NOFS[EV+]":"REACHABLE_TRAD_NOFS[MTint]"), (bool)fw});
            algs.push_back({fw?"dist TRAD_FS(fwd)":"dist TRAD_FS(bwd)", get_bop(REACHABLE_TRAD_FS(fw),FS,FR,FS, evp?"REACHABLE_TRAD_FS[EV+]":"REACHABLE_TRAD_FS[MTint]"), (bool)fw});
            algs.push_back({fw?"dist SATUR(fwd)":"dist SATUR(bwd)", get_bop(REACHABLE_SATUR(fw),FS,FR,FS, evp?"REACHABLE_SATUR[EV+]":"REACHABLE_SATUR[MTint]"), (bool)fw});
        }
        Builder BS(FS,sk,s);
        dd_edge r(FS), rel(FR), init(FS);
        const double UNR = evp ? INF : -1.0;
        std::vector<unsigned long> inits;
        if (rels.size()*US <= 300000) for (unsigned long i=0;i<US;i++) inits.push_back(i);
        else { inits = {0,1,US>>1,US-1,(US-1)/3}; for (long p=0;p<N;p++) inits.push_back(1UL<<p); }
        for (unsigned long ri : rels) {
            if (ctx.stop) break;
            Table rt = tab_from_index(ri, s.relPoints(), {0,1});
            BR.build(rt, rel);
            Graph g = graph_of(s, rt);
            for (unsigned long si : inits) {
                Table it(N), init0(N); for (long p=0;p<N;p++) { bool in = (si>>p)&1; it[p] = in?0.0:UNR; init0[p] = in?0.0:INF; }
                BS.build(it, init);
                dd_edge first(FS); bool haveFirst[2]={false,false}; dd_edge firstE[2] = {dd_edge(FS),dd_edge(FS)};
                for (auto& a : algs) {
                    if (!a.op) continue;
                    if (!case_lazy(fmt_case, (long)a.nm, (long)si, (long)ri)) continue;
                    Table dd = dist_model(g,init0,a.fwd), want(N); for (long p=0;p<N;p++) want[p] = dd[p]==INF ? UNR : dd[p];
                    try {
                        a.op->compute(init, rel, r);
                        std::string err = check_result(r,sk,s,want,true);
                        bool knowncls=false;
                        if (!err.empty()) {
                            const char* tag = err.compare(0,12,"NONCANONICAL")==0?"noncanonical-result":"wrong-result";
                            if (!evp && !strncmp(a.nm,"dist SATUR",10)) {
                                // semantic class of the known finding: MT-integer distance saturation answers "unreachable everywhere"
                                // the result loses initial (distance-0) states and is otherwise never better than the truth:
                                // some state with expected distance 0 reads negative, every other point is equal, negative, or larger
                                Table got; read_eval(r,sk,s,got); bool lost0=false, neverbetter=true;
                                for (long p=0;p<N;p++) { if (want[p]==0 && got[p]!=0) lost0=true; if (!(got[p]==want[p] || got[p]<0 || (want[p]>=0 && got[p]>want[p]))) neverbetter=false; }
                                if (lost0 && neverbetter) { tag = "mtint-satur-loses-distance0"; knowncls=true; }
                            }
                            violation(tag,"%s: relation [%s] initial set %s: %s", sk.name().c_str(), tab_str(rt).c_str(), tab_str(it).c_str(), err.c_str());
                        }
                        if (!haveFirst[a.fwd]) { firstE[a.fwd]=r; haveFirst[a.fwd]=true; } else if (firstE[a.fwd]!=r && !knowncls) violation("algorithms-differ","%s returns a different edge than the first algorithm in the same direction", a.nm);
                    } catch (MEDDLY::error e) { violation("op-error","threw %s (%s:%u)", e.getName(), e.getFile(), e.getLine()); }
                    if (want!=it) note_nontrivial(hmix(hstr(a.nm)+evp, ri*US+si));
                }
            }
            if (ctx.viol>ctx.maxviol && ctx.only<0 && ctx.upto<0) ctx.stop=true;
        }
        r.detach(); rel.detach(); init.detach();
        std::string a = audit_forest(FS,sk); if (!a.empty()) { strcpy(ctx.cur,(g_unit+" final audit").c_str()); lz_fn_reset(); violation("audit","%s: %s",sk.name().c_str(),a.c_str()); }
    }
    { std::string a = audit_forest(FR,rk); if (!a.empty()) { strcpy(ctx.cur,(g_unit+" final audit").c_str()); lz_fn_reset(); violation("audit","relation forest: %s",a.c_str()); } }
    domain::destroy(d);
    lib_done();
}

// ---- one-step images: boolean, EV+ distance (1 + min), MT int distance (negative = unreachable) ----
static void run_image(const std::map<std::string,std::string>& spec)
{
    Shape s = shape_by_name(spec_get(spec,"shape"));
    Kind rk; rk.rel=true; rk.range='b'; rk.lab='m'; rk.rr=spec_get(spec,"rel")[0];
    g_unit = "image shape="+s.name+" rel="+rk.name()+" set-rule="+spec_get(spec,"set");
    lib_init();
    domain* d = make_domain(s);
    forest* FR = make_forest(d,rk,Pol());
    std::vector<unsigned long> rels = rel_indices(rk,s,{0,1},spec_get(spec,"rels","all"));
    long N = s.setPoints();
    Builder BR(FR,rk,s);
    for (int variant=0; variant<3; variant++) {
        Kind sk; sk.rel=false; sk.rr=spec_get(spec,"set")[0];
        std::vector<double> V;
        if (variant==0) { sk.range='b'; sk.lab='m'; V={0,1}; }
        else if (variant==1) { sk.range='i'; sk.lab='p'; V={0,1,3,INF}; }
        else { sk.range='i'; sk.lab='m'; V={-1,0,1,2}; }
        forest* FS = make_forest(d,sk,Pol()); if (!FS) continue;
        unsigned long US = ipow(V.size(),N);
        std::vector<unsigned long> sets;
        if (US*rels.size() <= 3000000) for (unsigned long i=0;i<US;i++) sets.push_back(i); else sets = structured_family(sk,s,V,1,true);
        Universe Sets; Sets.build(FS,sk,s,V);
        binary_operation* ops[2] = { get_bop(POST_IMAGE(),FS,FR,FS, variant==0?"POST_IMAGE[bool]":variant==1?"POST_IMAGE[EV+]":"POST_IMAGE[MTint]"), get_bop(PRE_IMAGE(),FS,FR,FS, variant==0?"PRE_IMAGE[bool]":variant==1?"PRE_IMAGE[EV+]":"PRE_IMAGE[MTint]") };
        // the same operations with the result in a second set forest of the other reduction rule (operand Q -> result F and F -> Q),
        // where the library offers the combination (integer distances: only fully-reduced results are offered)
        Kind sk2 = sk; sk2.rr = sk.rr=='F' ? 'Q' : 'F';
        forest* FS2 = make_forest(d,sk2,Pol());
        binary_operation* ops2[2] = { nullptr, nullptr };
        if (FS2) { ops2[0] = get_bop(POST_IMAGE(),FS,FR,FS2, variant==0?"POST_IMAGE[bool, other rule]":variant==1?"POST_IMAGE[EV+, other rule]":"POST_IMAGE[MTint, other rule]");
                   ops2[1] = get_bop(PRE_IMAGE(),FS,FR,FS2, variant==0?"PRE_IMAGE[bool, other rule]":variant==1?"PRE_IMAGE[EV+, other rule]":"PRE_IMAGE[MTint, other rule]"); }
        dd_edge r(FS), rel(FR), r2(FS2?FS2:FS);
        for (unsigned long ri : rels) {
            if (ctx.stop) break;
            Table rt = tab_from_index(ri, s.relPoints(), {0,1});
            BR.build(rt, rel);
            Graph g = graph_of(s, rt);
            for (unsigned long si : sets) for (int pre=0; pre<2; pre++) {
                if (!ops[pre]) continue;
                if (!case_lazy(fmt_case, (long)(pre ? (variant==0?"PRE_IMAGE bool":variant==1?"PRE_IMAGE EV+":"PRE_IMAGE MTint") : (variant==0?"POST_IMAGE bool":variant==1?"POST_IMAGE EV+":"POST_IMAGE MTint")), (long)si, (long)ri)) continue;
                Table st = Sets.table(si), want(N);
                if (variant==0) want = image_model(g,st,pre);
                else {
                    // 1 + min over neighbours of the operand distance; 'unreachable' (EV+: +inf, MT int: negative) where there is none
                    for (long b=0;b<N;b++) { double m=INF; for (long a : (pre?g.succ[b]:g.pred[b])) { double v=st[a]; if (variant==2 && v<0) v=INF; m=std::min(m,v); } want[b] = m==INF ? (variant==1?INF:-1.0) : m+1; }
                }
                try {
                    ops[pre]->compute(Sets.e[si], rel, r);
                    bool okv;
                    if (variant==2) { // any negative value denotes 'unreachable'
                        Table x; read_eval(r,sk,s,x); okv=true; for (long p=0;p<N;p++) if (!((want[p]<0 && x[p]<0) || x[p]==want[p])) okv=false;
                        if (!okv) violation("wrong-result","relation [%s] operand [%s]: result reads [%s], expected [%s] (negative = unreachable)", tab_str(rt).c_str(), tab_str(st).c_str(), tab_str(x).c_str(), tab_str(want).c_str());
                    } else {
                        std::string err = check_result(r,sk,s,want,true);
                        if (!err.empty()) violation(err.compare(0,12,"NONCANONICAL")==0?"noncanonical-result":"wrong-result","relation [%s] operand [%s]: %s", tab_str(rt).c_str(), tab_str(st).c_str(), err.c_str());
                    }
                } catch (MEDDLY::error e) { violation("op-error","threw %s (%s:%u)", e.getName(), e.getFile(), e.getLine()); }
                if (!tab_is_const(want)) note_nontrivial(hmix(variant*2+pre, ri*US+si));
            }
            for (unsigned long si : sets) for (int pre=0; pre<2; pre++) {
                if (!ops2[pre]) continue;
                if (!case_lazy(fmt_case, (long)(pre ? (variant==0?"PRE_IMAGE bool, result in the other-rule forest":variant==1?"PRE_IMAGE EV+, result in the other-rule forest":"PRE_IMAGE MTint, result in the other-rule forest") : (variant==0?"POST_IMAGE bool, result in the other-rule forest":variant==1?"POST_IMAGE EV+, result in the other-rule forest":"POST_IMAGE MTint, result in the other-rule forest")), (long)si, (long)ri)) continue;
                Table st = Sets.table(si), want(N);
                if (variant==0) want = image_model(g,st,pre);
                else for (long b=0;b<N;b++) { double m=INF; for (long a : (pre?g.succ[b]:g.pred[b])) { double v=st[a]; if (variant==2 && v<0) v=INF; m=std::min(m,v); } want[b] = m==INF ? (variant==1?INF:-1.0) : m+1; }
                try {
                    ops2[pre]->compute(Sets.e[si], rel, r2);
                    if (variant==2) { Table x; read_eval(r2,sk2,s,x); bool okv=true; for (long p=0;p<N;p++) if (!((want[p]<0 && x[p]<0) || x[p]==want[p])) okv=false;
                        if (!okv) violation("wrong-result","relation [%s] operand [%s]: result (other-rule forest) reads [%s], expected [%s] (negative = unreachable)", tab_str(rt).c_str(), tab_str(st).c_str(), tab_str(x).c_str(), tab_str(want).c_str()); }
                    else { std::string err = check_result(r2,sk2,s,want,true);
                        // a right function delivered as a non-canonical edge of the OTHER forest is its own semantic class (see known_findings.json)
                        if (!err.empty()) violation(err.compare(0,12,"NONCANONICAL")==0?"image-other-rule-forest-noncanonical":"wrong-result","relation [%s] operand [%s], result in the other-rule forest: %s", tab_str(rt).c_str(), tab_str(st).c_str(), err.c_str()); }
                } catch (MEDDLY::error e) { violation("op-error","threw %s (%s:%u)", e.getName(), e.getFile(), e.getLine()); }
            }
            if (ctx.viol>ctx.maxviol && ctx.only<0 && ctx.upto<0) ctx.stop=true;
        }
        r.detach(); rel.detach(); r2.detach();
        if (FS2) { std::string a2 = audit_forest(FS2,sk2); if (!a2.empty()) { strcpy(ctx.cur,(g_unit+" final audit of the other-rule result forest").c_str()); lz_fn_reset(); violation(a2.find("A5 quasi-reduced")!=std::string::npos ? "image-other-rule-forest-noncanonical" : "audit","%s: %s",sk2.name().c_str(),a2.c_str()); } }
        { std::string e = Sets.recheck(); if (!e.empty()) violation("operand-changed","%s",e.c_str()); }
        Sets.clear();
        std::string a = audit_forest(FS,sk); if (!a.empty()) { strcpy(ctx.cur,(g_unit+" final audit").c_str()); lz_fn_reset(); violation("audit","%s: %s",sk.name().c_str(),a.c_str()); }
    }
    domain::destroy(d);
    lib_done();
}

// ---- vector-matrix / matrix-vector products ----
static void run_vm(const std::map<std::string,std::string>& spec)
{
    Shape s = shape_by_name(spec_get(spec,"shape"));
    std::string ty = spec_get(spec,"ty","MTi");
    Kind mk = kind_parse("R:"+ty+":"+spec_get(spec,"rel"));
    Kind vk = kind_parse("S:"+ty+":"+spec_get(spec,"set"));
    g_unit = "vm shape="+s.name+" matrix="+mk.name()+" vector="+vk.name();
    std::vector<double> V = alphabet(vk);
    lib_init();
    domain* d = make_domain(s);
    forest* FM = make_forest(d,mk,Pol()); forest* FV = make_forest(d,vk,Pol());
    long N = s.setPoints();
    std::vector<unsigned long> mats = rel_indices(mk,s,V,spec_get(spec,"rels","all"));
    unsigned long UV = ipow(V.size(),N);
    std::vector<unsigned long> vecs; if (UV*mats.size()<=2000000) for (unsigned long i=0;i<UV;i++) vecs.push_back(i); else vecs = structured_family(vk,s,V,1,true);
    Universe Vecs; Vecs.build(FV,vk,s,V);
    binary_operation* ops[2] = { get_bop(VM_MULTIPLY(),FV,FM,FV,"VM_MULTIPLY"), get_bop(MV_MULTIPLY(),FM,FV,FV,"MV_MULTIPLY") };
    Builder BM(FM,mk,s);
    dd_edge r(FV), m(FM);
    int x[16], xp[16];
    for (unsigned long mi : mats) {
        if (ctx.stop) break;
        Table mt = tab_from_index(mi, s.relPoints(), V);
        BM.build(mt, m);
        for (unsigned long vi : vecs) for (int mv=0; mv<2; mv++) {
            if (!ops[mv]) continue;
            if (!case_lazy(fmt_case, (long)(mv?"MV_MULTIPLY":"VM_MULTIPLY"), (long)vi, (long)mi)) continue;
            Table vt = Vecs.table(vi), want(N,0.0);
            for (long p=0;p<s.relPoints();p++) { decode_rel(s,p,x,xp); long i=encode_set(s,x), j=encode_set(s,xp); if (!mv) want[j] += vt[i]*mt[p]; else want[i] += mt[p]*vt[j]; }
            try {
                if (!mv) ops[0]->compute(Vecs.e[vi], m, r); else ops[1]->compute(m, Vecs.e[vi], r);
                std::string err = check_result(r,vk,s,want,vk.range!='r');
                if (!err.empty()) violation(err.compare(0,12,"NONCANONICAL")==0?"noncanonical-result":"wrong-result","matrix [%s] vector [%s]: %s", tab_str(mt).c_str(), tab_str(vt).c_str(), err.c_str());
            } catch (MEDDLY::error e) { violation("op-error","threw %s (%s:%u)", e.getName(), e.getFile(), e.getLine()); }
            if (!tab_is_const(want)) note_nontrivial(hmix(mv, mi*UV+vi));
        }
        if (ctx.viol>ctx.maxviol && ctx.only<0 && ctx.upto<0) ctx.stop=true;
    }
    r.detach(); m.detach();
    { std::string e = Vecs.recheck(); if (!e.empty()) violation("operand-changed","%s",e.c_str()); }
    Vecs.clear();
    for (auto fk : {std::make_pair(FV,vk), std::make_pair(FM,mk)}) { std::string a = audit_forest(fk.first,fk.second); if (!a.empty()) { strcpy(ctx.cur,(g_unit+" final audit").c_str()); lz_fn_reset(); violation("audit","%s",a.c_str()); } }
    domain::destroy(d);
    lib_done();
}

// ---- guarded events over a background task: two variables with sizes > 2 (S13 = 3 x 4, 144 relation points - no function numbers here).
// Relation = B u e1 u ... u ek, B = "x1 counts up, x2 unchanged" (the background task), ei from the catalogue of every single
// transition on (x2,x1) jointly (x1 tested/changed or not) and on x2 alone; every SET of <= k catalogue events; initial state (0,0).
// Oracles: explicit shortest distances / closure; EV+ distance saturation vs traditional iteration; boolean saturation.
struct GEvent { std::string name; std::vector<long> pts; };
static std::vector<GEvent> g_gev; static std::string g_gunit;
static void fmt_gev(char* buf, size_t n, const long* a)
{
    std::string ev; for (int i=1;i<=4;i++) if (a[i]>=0) { ev += g_gev[a[i]].name; ev += ' '; }
    snprintf(buf,n,"%s %s relation = count(x1) u { %s} initial state (0,0)", g_gunit.c_str(), (const char*)a[0], ev.c_str());
}
static void run_gev(const std::map<std::string,std::string>& spec)
{
    Shape s = shape_by_name(spec_get(spec,"shape"));
    int K = (int)spec_int(spec,"k",3), part=0, nparts=1; { std::string ps = spec_get(spec,"part","0/1"); sscanf(ps.c_str(),"%d/%d",&part,&nparts); }
    Kind rk; rk.rel=true; rk.range='b'; rk.lab='m'; rk.rr=spec_get(spec,"rel")[0];
    char setrule = spec_get(spec,"set")[0];
    g_gunit = "gev shape="+s.name+" rel="+rk.name()+" set-rule="+setrule;
    if (s.K()!=2) { declined("gev needs two variables"); return; }
    const long RP = s.relPoints(), N = s.setPoints(); int x[16], xp[16];
    const int b1=s.b[0], b2=s.b[1];
    // catalogue
    g_gev.clear();
    for (int a=0;a<b2;a++) for (int c=0;c<b2;c++) {
        if (a!=c) { GEvent e; char nm[48]; snprintf(nm,sizeof nm,"[x2:%d>%d]",a,c); e.name=nm; for (long p=0;p<RP;p++) { decode_rel(s,p,x,xp); if (x[2]==a && xp[2]==c && x[1]==xp[1]) e.pts.push_back(p); } g_gev.push_back(e); }
        for (int f=0;f<b1;f++) for (int t=0;t<b1;t++) { if (a==c && f==t) continue; GEvent e; char nm[48]; snprintf(nm,sizeof nm,"[x2:%d>%d&x1:%d>%d]",a,c,f,t); e.name=nm; for (long p=0;p<RP;p++) { decode_rel(s,p,x,xp); if (x[2]==a && xp[2]==c && x[1]==f && xp[1]==t) e.pts.push_back(p); } g_gev.push_back(e); }
    }
    const int C = (int)g_gev.size(); ctx.counters["catalogue"]=C;
    Table base(RP,0.0); for (long p=0;p<RP;p++) { decode_rel(s,p,x,xp); if (x[2]==xp[2] && xp[1]==x[1]+1) base[p]=1; }
    lib_init();
    domain* d = make_domain(s);
    forest* FR = make_forest(d,rk,Pol());
    Kind skb; skb.rel=false; skb.range='b'; skb.lab='m'; skb.rr=setrule; Kind ske=skb; ske.range='i'; ske.lab='p';
    forest* FB = make_forest(d,skb,Pol()); forest* FE = make_forest(d,ske,Pol());
    struct Alg { const char* nm; binary_operation* op; bool fwd; bool evp; };
    std::vector<Alg> algs;
    for (int fw=1; fw>=0; fw--) {
        if (FE) { algs.push_back({fw?"EV+ SATUR(fwd)":"EV+ SATUR(bwd)", get_bop(REACHABLE_SATUR(fw),FE,FR,FE,"REACHABLE_SATUR[EV+]"), (bool)fw, true});
                  algs.push_back({fw?"EV+ TRAD_NOFS(fwd)":"EV+ TRAD_NOFS(bwd)", get_bop(REACHABLE_TRAD_NOFS(fw),FE,FR,FE,"REACHABLE_TRAD_NOFS[EV+]"), (bool)fw, true}); }
        if (FB) algs.push_back({fw?"bool SATUR(fwd)":"bool SATUR(bwd)", get_bop(REACHABLE_SATUR(fw),FB,FR,FB,"REACHABLE_SATUR[bool]"), (bool)fw, false});
    }
    Builder BR(FR,rk,s), BB(FB,skb,s), BE(FE,ske,s);
    dd_edge rel(FR), initB(FB), initE(FE), rB(FB), rE(FE);
    Table itB(N,0.0), itE(N,INF), init0(N,INF); itB[0]=1; itE[0]=0; init0[0]=0;
    BB.build(itB, initB); BE.build(itE, initE);
    Table rt = base; std::vector<int> chosen;
    long combo=0;
    std::function<void(int)> rec = [&](int from) {
        if (ctx.stop) return;
        if (!chosen.empty() && ((combo++ % nparts)==part)) {
            BR.build(rt, rel);
            Graph g = graph_of(s, rt);
            long a1 = chosen.size()>0?chosen[0]:-1, a2 = chosen.size()>1?chosen[1]:-1, a3 = chosen.size()>2?chosen[2]:-1, a4 = chosen.size()>3?chosen[3]:-1;
            for (auto& a : algs) {
                if (!a.op) continue;
                if (!case_lazy(fmt_gev, (long)a.nm, a1, a2, a3, a4)) continue;
                Table dd = dist_model(g,init0,a.fwd), want(N);
                for (long p=0;p<N;p++) want[p] = a.evp ? dd[p] : (double)(dd[p]!=INF);
                try {
                    if (a.evp) a.op->compute(initE, rel, rE); else a.op->compute(initB, rel, rB);
                    std::string err = check_result(a.evp?rE:rB, a.evp?ske:skb, s, want, true);
                    if (!err.empty()) violation(err.compare(0,12,"NONCANONICAL")==0?"noncanonical-result":"wrong-result","relation [%s]: %s", tab_str(rt).c_str(), err.c_str());
                } catch (MEDDLY::error e) { violation("op-error","threw %s (%s:%u)", e.getName(), e.getFile(), e.getLine()); }
                bool moved=false; for (long p=1;p<N;p++) if (dd[p]!=INF) moved=true;
                if (moved) note_nontrivial(hmix(hmix(hmix(hmix(hstr(a.nm),a1+1),a2+1),a3+1),a4+1));
            }
            if (ctx.viol>ctx.maxviol && ctx.only<0 && ctx.upto<0) ctx.stop=true;
        }
        if ((int)chosen.size()==K) return;
        for (int e=from; e<C; e++) {
            std::vector<long> added; for (long p : g_gev[e].pts) if (rt[p]==0) { rt[p]=1; added.push_back(p); }
            chosen.push_back(e); rec(e+1); chosen.pop_back();
            for (long p : added) rt[p]=0;
        }
    };
    rec(0);
    rel.detach(); initB.detach(); initE.detach(); rB.detach(); rE.detach();
    for (auto fk : {std::make_pair(FB,skb), std::make_pair(FE,ske), std::make_pair(FR,rk)}) if (fk.first) { std::string a = audit_forest(fk.first,fk.second); if (!a.empty()) { strcpy(ctx.cur,(g_gunit+" final audit").c_str()); lz_fn_reset(); violation("audit","%s",a.c_str()); } }
    domain::destroy(d);
    lib_done();
}

static void run_unit(const std::map<std::string,std::string>& spec)
{
    std::string m = spec_get(spec,"mode");
    if (m=="gev") run_gev(spec); else
    if (m=="reach") run_reach(spec); else if (m=="dist") run_dist(spec); else if (m=="image") run_image(spec); else run_vm(spec);
}
int main(int argc, char** argv) { return std_main(argc, argv, list_units, run_unit); }
