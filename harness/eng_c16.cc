// C16 misuse is rejected with a documented error and leaves everything intact.
// History = [legal prefix] + misuse call + [legal suffix]; every operation of the catalogue x every misuse class.
#include "common.h"

typedef std::set<int> Codes;
static std::string codes_str(const Codes& c) { std::string s; for (int x : c) { error e((error::code)x,"",0); if (!s.empty()) s+="|"; s+=e.getName(); } return s; }

struct World {
    Shape s1, s2; domain *d1=nullptr, *d2=nullptr;
    Kind kA, kB, kR, kP; forest *FA=nullptr, *FB=nullptr, *FR=nullptr, *FX=nullptr, *FZ=nullptr, *FP=nullptr, *FRI=nullptr, *FXI=nullptr;
    dd_edge *a=nullptr, *a2=nullptr, *b=nullptr, *b2=nullptr, *r=nullptr, *x=nullptr, *z=nullptr, *p=nullptr, *ri=nullptr, *xi=nullptr;
    Table ta, ta2, tb, tb2, tr, tp, tri;
};

static void world_up(World& W)
{
    lib_init();
    W.s1 = shape_by_name("S4"); W.s2 = shape_by_name("S5");
    W.d1 = make_domain(W.s1); W.d2 = make_domain(W.s2);
    W.kA = kind_parse("S:MTb:F"); W.kB = kind_parse("S:MTi:Q"); W.kR = kind_parse("R:MTb:I"); W.kP = kind_parse("S:EVpi:F");
    W.FA = make_forest(W.d1,W.kA,Pol()); W.FB = make_forest(W.d1,W.kB,Pol()); W.FR = make_forest(W.d1,W.kR,Pol());
    W.FX = make_forest(W.d2,W.kA,Pol()); W.FZ = make_forest(W.d1,W.kA,Pol()); W.FP = make_forest(W.d1,W.kP,Pol());
    Kind kRI = kind_parse("R:MTi:F"); W.FRI = make_forest(W.d1,kRI,Pol());
    W.FXI = make_forest(W.d2,W.kB,Pol());
    W.ta = tab_parse("1 0 0 1 1 0"); W.ta2 = tab_parse("0 1 1 1 0 0");
    W.tb = tab_parse("3 0 -2 1 1 0"); W.tb2 = tab_parse("1 3 0 1 -2 1");
    W.tp = tab_parse("0 3 oo 1 1 oo");
    W.tr.assign(W.s1.relPoints(),0.0); for (long p=0;p<W.s1.relPoints();p+=5) W.tr[p]=1;
    W.tri.assign(W.s1.relPoints(),0.0); for (long p=0;p<W.s1.relPoints();p+=7) W.tri[p]=(double)(p%3+1);
    W.a=new dd_edge(W.FA); W.a2=new dd_edge(W.FA); W.b=new dd_edge(W.FB); W.b2=new dd_edge(W.FB); W.r=new dd_edge(W.FR); W.x=new dd_edge(W.FX); W.z=new dd_edge(W.FZ); W.p=new dd_edge(W.FP); W.ri=new dd_edge(W.FRI);
    Builder(W.FA,W.kA,W.s1).build(W.ta,*W.a); Builder(W.FA,W.kA,W.s1).build(W.ta2,*W.a2);
    Builder(W.FB,W.kB,W.s1).build(W.tb,*W.b); Builder(W.FB,W.kB,W.s1).build(W.tb2,*W.b2);
    Builder(W.FR,W.kR,W.s1).build(W.tr,*W.r); Builder(W.FP,W.kP,W.s1).build(W.tp,*W.p);
    Builder(W.FRI,kRI,W.s1).build(W.tri,*W.ri);
    { Table tx = tab_parse("1 0 1 0 0 1"); Builder(W.FX,W.kA,W.s2).build(tx,*W.x); W.xi=new dd_edge(W.FXI); Table ti = tab_parse("1 3 1 -2 0 1"); Builder(W.FXI,W.kB,W.s2).build(ti,*W.xi); }
    Builder(W.FZ,W.kA,W.s1).build(W.ta,*W.z);
}
static void world_down(World& W)
{
    delete W.a; delete W.a2; delete W.b; delete W.b2; delete W.r; delete W.x; delete W.z; delete W.p; delete W.ri; delete W.xi;
    domain::destroy(W.d1); domain::destroy(W.d2);
    lib_done();
}
// everything previously obtained still denotes the same function; forests canonical; references never over-released
static void world_intact(World& W, const char* when)
{
    struct E { dd_edge* e; Kind k; const Table* t; const char* nm; };
    Kind kRI = kind_parse("R:MTi:F");
    for (E x : { E{W.a,W.kA,&W.ta,"a"}, E{W.a2,W.kA,&W.ta2,"a2"}, E{W.b,W.kB,&W.tb,"b"}, E{W.b2,W.kB,&W.tb2,"b2"}, E{W.r,W.kR,&W.tr,"r"}, E{W.p,W.kP,&W.tp,"p"}, E{W.ri,kRI,&W.tri,"ri"} }) {
        std::string err = check_edge(*x.e, x.k, W.s1, *x.t);
        if (!err.empty()) violation("state-damaged","%s: held edge %s: %s", when, x.nm, err.c_str());
    }
    AuditOpts ao; ao.refcounts=false; ao.refcounts_atleast=true;
    struct FK { forest* f; Kind k; const char* nm; };
    for (FK fk : { FK{W.FA,W.kA,"bool set"}, FK{W.FB,W.kB,"int set"}, FK{W.FR,W.kR,"bool relation"}, FK{W.FP,W.kP,"EV+ set"}, FK{W.FRI,kRI,"int relation"} }) {
        std::string a = audit_forest(fk.f, fk.k, ao);
        if (!a.empty()) violation("state-damaged","%s: %s forest: %s", when, fk.nm, a.c_str());
    }
}
// "usable": a legal operation afterwards gives the right answer
static void world_usable(World& W)
{
    try {
        dd_edge c(W.FA); apply(UNION,*W.a,*W.a2,c); Table t(W.ta.size()); for (size_t i=0;i<t.size();i++) t[i]=(W.ta[i]!=0||W.ta2[i]!=0);
        std::string err = check_edge(c,W.kA,W.s1,t); if (!err.empty()) violation("not-usable","UNION after the error: %s", err.c_str());
        dd_edge s(W.FB); apply(PLUS,*W.b,*W.b2,s); Table u(W.tb.size()); for (size_t i=0;i<u.size();i++) u[i]=W.tb[i]+W.tb2[i];
        err = check_edge(s,W.kB,W.s1,u); if (!err.empty()) violation("not-usable","PLUS after the error: %s", err.c_str());
    } catch (MEDDLY::error e) { violation("not-usable","a legal operation after the error threw %s (%s:%u)", e.getName(), e.getFile(), e.getLine()); }
}

struct Misuse { std::string name; Codes allowed; std::function<void(World&)> run; };

static void add_binary_misuses(std::vector<Misuse>& M)
{
    struct BO { const char* nm; binary_factory& (*f)(); };
    static const BO bops[] = { {"UNION",UNION},{"INTERSECTION",INTERSECTION},{"DIFFERENCE",DIFFERENCE},{"CROSS",CROSS},{"MAXIMUM",MAXIMUM},{"MINIMUM",MINIMUM},{"DIST_MIN",DIST_MIN},{"PLUS",PLUS},{"MINUS",MINUS},{"MULTIPLY",MULTIPLY},{"DIVIDE",DIVIDE},{"MODULO",MODULO},{"EQUAL",EQUAL},{"NOT_EQUAL",NOT_EQUAL},{"LESS_THAN",LESS_THAN},{"LESS_THAN_EQUAL",LESS_THAN_EQUAL},{"GREATER_THAN",GREATER_THAN},{"GREATER_THAN_EQUAL",GREATER_THAN_EQUAL},{"PRE_IMAGE",PRE_IMAGE},{"POST_IMAGE",POST_IMAGE},{"VM_MULTIPLY",VM_MULTIPLY},{"MV_MULTIPLY",MV_MULTIPLY} };
    const Codes DOM = {error::DOMAIN_MISMATCH};
    const Codes TYP = {error::TYPE_MISMATCH, error::NOT_IMPLEMENTED, error::INVALID_OPERATION, error::FOREST_MISMATCH, error::DOMAIN_MISMATCH};
    const Codes RES = {error::FOREST_MISMATCH, error::DOMAIN_MISMATCH, error::TYPE_MISMATCH, error::NOT_IMPLEMENTED, error::INVALID_OPERATION};
    for (const BO& o : bops) {
        binary_factory& (*f)() = o.f; std::string nm = o.nm;
        bool arith = !(nm=="UNION"||nm=="INTERSECTION"||nm=="DIFFERENCE"||nm=="CROSS"||nm=="PRE_IMAGE"||nm=="POST_IMAGE");
        // operand from a different domain
        if (nm=="VM_MULTIPLY"||nm=="MV_MULTIPLY"||nm=="PRE_IMAGE"||nm=="POST_IMAGE") {
            // (set, relation) operands: the set / vector comes from another domain
            bool mv = nm=="MV_MULTIPLY"; bool img = nm[0]=='P';
            M.push_back({nm+": set operand from another domain", DOM, [f,mv,img](World& W){ dd_edge c(img?W.FA:W.FB); if (mv) apply(f(), *W.ri, *W.xi, c); else if (img) apply(f(), *W.x, *W.r, c); else apply(f(), *W.xi, *W.ri, c); }});
            M.push_back({nm+": result attached to a forest of another domain", DOM, [f,mv,img](World& W){ dd_edge c(img?W.FX:W.FXI); if (mv) apply(f(), *W.ri, *W.b, c); else if (img) apply(f(), *W.a, *W.r, c); else apply(f(), *W.b, *W.ri, c); }});
        } else {
            M.push_back({nm+": second operand from another domain", DOM, [f,arith](World& W){ dd_edge c(arith?W.FB:W.FA); if (arith) apply(f(), *W.b, *W.xi, c); else apply(f(), *W.a, *W.x, c); }});
            M.push_back({nm+": first operand from another domain", DOM, [f,arith](World& W){ dd_edge c(arith?W.FB:W.FA); if (arith) apply(f(), *W.xi, *W.b, c); else apply(f(), *W.x, *W.a, c); }});
            M.push_back({nm+": result attached to a forest of another domain", DOM, [f,arith](World& W){ dd_edge c(arith?W.FXI:W.FX); if (arith) apply(f(), *W.b, *W.b2, c); else apply(f(), *W.a, *W.a2, c); }});
        }
        // result edge not attached to any forest
        M.push_back({nm+": result edge not attached to a forest", RES, [f,arith](World& W){ dd_edge c; if (arith) apply(f(), *W.b, *W.b2, c); else apply(f(), *W.a, *W.a2, c); }});
        // set where a relation is needed / relation where a set is needed / range mismatch
        if (nm=="PRE_IMAGE"||nm=="POST_IMAGE"||nm=="VM_MULTIPLY") M.push_back({nm+": set passed where the relation is required", TYP, [f](World& W){ dd_edge c(W.FA); apply(f(), *W.a, *W.a2, c); }});
        else if (nm=="MV_MULTIPLY") M.push_back({nm+": set passed where the matrix is required", TYP, [f](World& W){ dd_edge c(W.FB); apply(f(), *W.b, *W.b2, c); }});
        else if (nm!="CROSS") M.push_back({nm+": relation operand with set operand", TYP, [f,arith](World& W){ dd_edge c(arith?W.FB:W.FA); if (arith) apply(f(), *W.b, *W.ri, c); else apply(f(), *W.a, *W.r, c); }});
        if (nm=="CROSS") M.push_back({nm+": result in a set forest", TYP, [f](World& W){ dd_edge c(W.FA); apply(f(), *W.a, *W.a2, c); }});
        // (arithmetic on boolean forests and set algebra on integer forests are accepted and computed by the library; not misuse)
        if (nm!="CROSS") M.push_back({nm+": multi-terminal with EV+ operand", TYP, [f,arith](World& W){ dd_edge c(W.FB); apply(f(), *W.b, *W.p, c); }});
    }
    struct UO { const char* nm; unary_factory& (*f)(); };
    static const UO uops[] = { {"COMPLEMENT",COMPLEMENT},{"COPY",COPY},{"CONVERT_TO_INDEX_SET",CONVERT_TO_INDEX_SET},{"DIST_INC",DIST_INC} };
    for (const UO& o : uops) {
        unary_factory& (*f)() = o.f; std::string nm=o.nm;
        M.push_back({nm+": result attached to a forest of another domain", DOM, [f,nm](World& W){ dd_edge c(W.FX); if (nm=="DIST_INC") apply(f(), *W.b, c); else apply(f(), *W.a, c); }});
        M.push_back({nm+": result edge not attached to a forest", RES, [f,nm](World& W){ dd_edge c; if (nm=="DIST_INC") apply(f(), *W.b, c); else apply(f(), *W.a, c); }});
        if (nm!="COPY") M.push_back({nm+": set operand, relation result", TYP, [f,nm](World& W){ dd_edge c(W.FR); if (nm=="DIST_INC") apply(f(), *W.b, c); else apply(f(), *W.a, c); }});
        else M.push_back({nm+": set operand, relation result", TYP, [f](World& W){ dd_edge c(W.FR); apply(f(), *W.a, c); }});
        if (nm=="COMPLEMENT"||nm=="CONVERT_TO_INDEX_SET") M.push_back({nm+": integer operand", TYP, [f](World& W){ dd_edge c(W.FB); apply(f(), *W.b, c); }});
        if (nm=="DIST_INC") M.push_back({nm+": boolean operand", TYP, [f](World& W){ dd_edge c(W.FA); apply(f(), *W.a, c); }});
    }
}

static void add_value_misuses(std::vector<Misuse>& M)
{
    const Codes TYP = {error::TYPE_MISMATCH};
    const Codes OVF = {error::VALUE_OVERFLOW};
    M.push_back({"createConstant: integer value into a boolean forest", TYP, [](World& W){ dd_edge c(W.FA); W.FA->createConstant(rangeval(5L), c); }});
    M.push_back({"createConstant: boolean value into an integer forest", TYP, [](World& W){ dd_edge c(W.FB); W.FB->createConstant(rangeval(true), c); }});
    M.push_back({"createConstant: real value into an integer forest", TYP, [](World& W){ dd_edge c(W.FB); W.FB->createConstant(rangeval(2.5), c); }});
    for (long v : {1L<<30, -(1L<<30)-1, 1L<<31, -(1L<<31), 1L<<40, -(1L<<40)}) {
        M.push_back({"createConstant: integer "+std::to_string(v)+" does not fit a terminal", OVF, [v](World& W){ dd_edge c(W.FB); W.FB->createConstant(rangeval(v), c); }});
        M.push_back({"minterm value "+std::to_string(v)+" does not fit a terminal", OVF, [v](World& W){ dd_edge c(W.FB); minterm m(W.FB); m.setVar(1,0); m.setVar(2,1); m.setValue(v); m.buildFunction(rangeval(0L), c); }});
        M.push_back({"createEdgeForVar: term "+std::to_string(v)+" does not fit a terminal", OVF, [v](World& W){ dd_edge c(W.FB); rangeval t[3] = {rangeval(0L), rangeval(v), rangeval(1L)}; W.FB->createEdgeForVar(2,false,t,c); }});
    }
    M.push_back({"createEdgeForVar: boolean terms into an integer forest", TYP, [](World& W){ dd_edge c(W.FB); rangeval t[3] = {rangeval(true), rangeval(false), rangeval(true)}; W.FB->createEdgeForVar(2,false,t,c); }});
    M.push_back({"minterm::buildFunction: boolean default into an integer forest", TYP, [](World& W){ dd_edge c(W.FB); minterm m(W.FB); m.setVar(1,0); m.setVar(2,1); m.setValue(3L); m.buildFunction(rangeval(false), c); }});
    M.push_back({"minterm::buildFunction: minterm of another domain", {error::DOMAIN_MISMATCH}, [](World& W){ dd_edge c(W.FA); minterm m(W.FX); m.setVar(1,0); m.setVar(2,1); m.setValue(true); m.buildFunction(rangeval(false), c); }});
    M.push_back({"minterm::buildFunction: relation minterm into a set forest", {error::DOMAIN_MISMATCH, error::TYPE_MISMATCH}, [](World& W){ dd_edge c(W.FA); minterm m(W.FR); m.setVars(1,0,0); m.setVars(2,1,1); m.setValue(true); m.buildFunction(rangeval(false), c); }});
    M.push_back({"minterm::buildFunction: result edge not attached", {error::FOREST_MISMATCH}, [](World& W){ dd_edge c; minterm m(W.FA); m.setVar(1,0); m.setVar(2,1); m.setValue(true); m.buildFunction(rangeval(false), c); }});
    M.push_back({"minterm_coll::buildFunctionMax: collection of another domain", {error::DOMAIN_MISMATCH}, [](World& W){ dd_edge c(W.FA); minterm_coll mc(4,W.FX); mc.unused().setVar(1,0); mc.unused().setVar(2,1); mc.unused().setValue(true); mc.pushUnused(); mc.buildFunctionMax(rangeval(false), c); }});
    M.push_back({"evaluate: minterm of another domain", {error::DOMAIN_MISMATCH}, [](World& W){ minterm m(W.FX); m.setVar(1,0); m.setVar(2,1); rangeval rv; W.a->evaluate(m, rv); }});
    M.push_back({"getElement on an edge that is not an index set", {error::INVALID_OPERATION, error::TYPE_MISMATCH}, [](World& W){ minterm m(W.FB); W.b->getElement(0, m); }});
    // division by zero met at different depths of the recursion, after part of the result was built
    for (int where=0; where<6; where++) {
        M.push_back({"DIVIDE: divisor zero only at point "+std::to_string(where), {error::DIVIDE_BY_ZERO}, [where](World& W){ Table t(6,1.0); t[where]=0; t[(where+1)%6]=3; dd_edge dv(W.FB), c(W.FB); Builder(W.FB,W.kB,W.s1).build(t,dv); apply(DIVIDE,*W.b2,dv,c); }});
        M.push_back({"MODULO: divisor zero only at point "+std::to_string(where), {error::DIVIDE_BY_ZERO}, [where](World& W){ Table t(6,3.0); t[where]=0; dd_edge dv(W.FB), c(W.FB); Builder(W.FB,W.kB,W.s1).build(t,dv); apply(MODULO,*W.b2,dv,c); }});
        M.push_back({"EV+ MINUS: subtrahend +infinity only at point "+std::to_string(where), {error::SUBTRACT_INFINITY}, [where](World& W){ Table t(6,1.0), u(6,5.0); t[where]=INF; u[(where+2)%6]=7; dd_edge sb(W.FP), mn(W.FP), c(W.FP); Builder(W.FP,W.kP,W.s1).build(t,sb); Builder(W.FP,W.kP,W.s1).build(u,mn); apply(MINUS,mn,sb,c); }});
    }
    // iterators
    M.push_back({"dereferencing an exhausted iterator", {error::INVALID_ITERATOR}, [](World& W){ dd_edge::iterator it = W.a->begin(); while (it) ++it; ++it; const minterm& m = *it; (void)m.from(1); }});
    M.push_back({"dereferencing a default-constructed iterator", {error::INVALID_ITERATOR}, [](World& W){ dd_edge::iterator it; const minterm& m = *it; (void)m.from(1); }});
    M.push_back({"dereferencing the iterator of the empty set", {error::INVALID_ITERATOR}, [](World& W){ dd_edge e(W.FA); dd_edge::iterator it = e.begin(); const minterm& m = *it; (void)m.from(1); }});
    // use of an edge whose forest was destroyed
    const Codes ORPH = {error::FOREST_MISMATCH, error::NOT_IMPLEMENTED, error::INVALID_OPERATION, error::DOMAIN_MISMATCH, error::TYPE_MISMATCH};
    M.push_back({"orphaned edge (forest destroyed) as operand of UNION", ORPH, [](World& W){ forest::destroy(W.FZ); W.FZ=nullptr; if (W.z->getForest()!=nullptr) violation("not-detached","edge still reports a forest after forest::destroy"); dd_edge c(W.FA); apply(UNION,*W.z,*W.a,c); }});
    M.push_back({"orphaned edge as result of UNION", ORPH, [](World& W){ forest::destroy(W.FZ); W.FZ=nullptr; apply(UNION,*W.a,*W.a2,*W.z); }});
    M.push_back({"orphaned edge in evaluate", ORPH, [](World& W){ forest::destroy(W.FZ); W.FZ=nullptr; minterm m(W.FA); m.setVar(1,0); m.setVar(2,1); rangeval rv; W.z->evaluate(m,rv); }});
    M.push_back({"orphaned edge as operand of COPY", ORPH, [](World& W){ forest::destroy(W.FZ); W.FZ=nullptr; dd_edge c(W.FA); apply(COPY,*W.z,c); }});
    M.push_back({"orphaned edge as operand of CARDINALITY", ORPH, [](World& W){ forest::destroy(W.FZ); W.FZ=nullptr; long c=0; apply(CARDINALITY,*W.z,c); }});
}

static void list_units(const std::string&) { printf("part=binary\npart=values\n"); }

static void run_unit(const std::map<std::string,std::string>& spec)
{
    std::vector<Misuse> M;
    if (spec_get(spec,"part")=="binary") add_binary_misuses(M); else add_value_misuses(M);
    ctx.counters["misuse_calls"]=(long)M.size();
    // history shapes: 0 = misuse only; 1 = legal op first (warm caches); 2 = two misuses in a row (same call twice); all followed by legal ops
    for (size_t mi=0; mi<M.size(); mi++) for (int shape=0; shape<3; shape++) {
        if (!case_begin("%s%s", shape==1?"[UNION,PLUS] then ":shape==2?"twice: ":"", M[mi].name.c_str())) continue;
        note_nontrivial(hstr(ctx.cur));
        World W; world_up(W);
        ctx.transitions += 2 + shape;
        if (shape==1) world_usable(W);
        for (int rep=0; rep<(shape==2?2:1); rep++) {
            bool threw=false;
            try { M[mi].run(W); }
            catch (MEDDLY::error e) {
                threw=true;
                if (!M[mi].allowed.count((int)e.getCode())) violation("wrong-error-code","raised '%s' (%s:%u); documented for this misuse: %s", e.getName(), e.getFile(), e.getLine(), codes_str(M[mi].allowed).c_str());
                note_outcome(hmix(mi,(unsigned long)e.getCode()));
            }
            catch (...) { threw=true; violation("foreign-exception","the call raised something that is not a MEDDLY::error"); }
            if (!threw) violation("misuse-accepted","the call returned normally instead of raising %s", codes_str(M[mi].allowed).c_str());
            world_intact(W, "after the rejected call");
        }
        world_usable(W);
        world_intact(W, "after the follow-up operations");
        world_down(W);
    }
}
int main(int argc, char** argv) { return std_main(argc, argv, list_units, run_unit); }
