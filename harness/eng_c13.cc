// C13 variable reordering: every target permutation x 8 heuristics x 2 swap methods x prefixes of held
// registers / warm caches; rand() used by the RANDOM heuristic is an enumerated choice point.
#include "common.h"
#include <ctime>

// ---- nondeterminism owned by the harness (link-time interposition: the library's calls resolve here) ----
static std::vector<int> g_script;   // answers for the choice points of this execution
static size_t g_rand_calls = 0;     // number of rand() calls after the seed call
static bool g_seed_call = true;
extern "C" int rand(void) __THROW
{
    if (g_seed_call) { g_seed_call = false; return 0; }    // "int seed = rand(); srand(seed);"
    size_t i = g_rand_calls++;
    return i < g_script.size() ? g_script[i] : 0;
}
extern "C" void srand(unsigned) __THROW { }
extern "C" time_t time(time_t* t) __THROW { if (t) *t = 1000000000; return 1000000000; }
static void rand_reset(const std::vector<int>& script) { g_script = script; g_rand_calls = 0; g_seed_call = true; }

static const char* HEUR[8] = {"LOWEST_INVERSION","HIGHEST_INVERSION","SINK_DOWN","BRING_UP","LOWEST_COST","LOWEST_MEMORY","RANDOM","LARC"};
static policies::reordering_type heur_of(int h)
{
    switch (h) {
        case 0: return policies::reordering_type::LOWEST_INVERSION;
        case 1: return policies::reordering_type::HIGHEST_INVERSION;
        case 2: return policies::reordering_type::SINK_DOWN;
        case 3: return policies::reordering_type::BRING_UP;
        case 4: return policies::reordering_type::LOWEST_COST;
        case 5: return policies::reordering_type::LOWEST_MEMORY;
        case 6: return policies::reordering_type::RANDOM;
        default: return policies::reordering_type::LARC;
    }
}

static std::vector<std::string> reorder_kinds()
{
    return {"S:MTb:F","S:MTb:Q","S:MTi:F","S:MTi:Q","S:MTr:F","S:EVpi:F","S:EVpi:Q","R:MTb:F","R:MTb:Q","R:MTb:I","R:MTi:I","R:MTi:F"};
}

static void list_units(const std::string& tier0)
{
    std::string tier = tier0, variant = "rel";
    size_t c = tier.find(':'); if (c!=std::string::npos) { variant = tier.substr(c+1); tier = tier.substr(0,c); }
    bool th = tier=="thorough";
    bool asan = variant=="asan";
    for (auto& k : reorder_kinds()) {
        Kind kk = kind_parse(k);
        if (!th) {
            // quick: S4 (2 variables, sizes 2,3) and S7 (3 variables, sizes 2,3,2) for everything; S8 (4 variables) for sets on 4 heuristics
            if (!asan) {
                for (const char* sh : {"S4","S7"}) for (int h=0; h<8; h++) for (char sw : {'V','L'}) printf("kind=%s,shape=%s,heur=%d,swap=%c,second=few,cap=32\n", k.c_str(), sh, h, sw);
                if (!kk.rel) for (int h : {0,2,4,6}) printf("kind=%s,shape=S8,heur=%d,swap=V,second=few,cap=12\n", k.c_str(), h);
            } else {
                for (int h=0; h<8; h++) printf("kind=%s,shape=S7,heur=%d,swap=V,second=few,cap=10\n", k.c_str(), h);
            }
            continue;
        }
        std::vector<std::string> shapes;
        if (kk.rel) shapes = !asan ? std::vector<std::string>{"S4","S5","S7"} : std::vector<std::string>{"S4","S7"};
        else shapes = !asan ? std::vector<std::string>{"S4","S5","S7","S8","S11"} : std::vector<std::string>{"S4","S7","S8"};
        for (auto& sh : shapes) for (int h=0; h<8; h++) for (char sw : {'V','L'}) {
            if (asan && sw=='L' && kk.rel) continue;
            printf("kind=%s,shape=%s,heur=%d,swap=%c,second=%s,cap=%d\n", k.c_str(), sh.c_str(), h, sw, asan ? "few" : "all", asan ? 32 : 256);
        }
    }
}

// table after reordering: level l holds variable order[l]
static Shape reordered_shape(const Shape& s, const std::vector<int>& order)
{
    Shape r; r.name = s.name + "'"; r.b.resize(s.K());
    for (int l=1;l<=s.K();l++) r.b[l-1] = s.b[order[l]-1];
    return r;
}
static Table reordered_table(const Kind& k, const Shape& s, const std::vector<int>& order, const Table& t)
{
    Shape r = reordered_shape(s, order);
    long P = r.points(k.rel);
    Table out(P);
    int y[16], yp[16], x[16], xp[16];
    for (long p=0;p<P;p++) {
        if (k.rel) { decode_rel(r,p,y,yp); for (int l=1;l<=s.K();l++) { x[order[l]]=y[l]; xp[order[l]]=yp[l]; } out[p] = t[encode_rel(s,x,xp)]; }
        else { decode_set(r,p,y); for (int l=1;l<=s.K();l++) x[order[l]]=y[l]; out[p] = t[encode_set(s,x)]; }
    }
    return out;
}

struct Scen {
    Kind k; Shape s; int heur; char swap; std::vector<double> V; long P;
    std::vector<Table> cat;
};

static std::string order_str(const std::vector<int>& o) { std::string s; for (size_t i=1;i<o.size();i++) { s += char('0'+o[i]); } return s; }

static double scal(const Kind& k, double a, double b) { if (k.range=='b') return (a!=0||b!=0)?1:0; if (k.isEVp()) return std::min(a,b); return std::max(a,b); }

// one execution; returns number of rand() calls made by the library (for choice-point enumeration)
static size_t exec_case(const Scen& S, const std::vector<int>& regs, bool warm, const std::vector<int>& pi, const std::vector<int>* pi2, const std::vector<int>& script, bool follow=false)
{
    rand_reset(script);
    lib_init();
    domain* d = make_domain(S.s);
    policies pol = make_policies(S.k, Pol());
    pol.reorder = heur_of(S.heur);
    pol.swap = S.swap=='V' ? policies::variable_swap_type::VAR : policies::variable_swap_type::LEVEL;
    forest* F = make_forest(d, S.k, Pol(), &pol);
    forest* G = make_forest(d, S.k, Pol());   // bystander over the same domain
    if (!F || !G) { domain::destroy(d); lib_done(); return 0; }
    {
        Builder B(F,S.k,S.s), BG(G,S.k,S.s);
        std::vector<dd_edge> reg; std::vector<Table> rt;
        for (int i : regs) { reg.emplace_back(F); B.build(S.cat[i], reg.back()); rt.push_back(S.cat[i]); }
        dd_edge gb(G); BG.build(S.cat[regs[0]], gb);
        binary_operation* op = nullptr; int opres = -1;
        if (warm && reg.size()>=2) {
            op = get_bop(S.k.range=='b' ? UNION() : (S.k.isEVp() ? MINIMUM() : MAXIMUM()), F,F,F, "warm-op");
            if (op) {
                dd_edge r(F); op->compute(reg[0], reg[1], r);
                Table t(S.P); for (long p=0;p<S.P;p++) t[p]=scal(S.k, rt[0][p], rt[1][p]);
                reg.push_back(r); rt.push_back(t); opres = (int)reg.size()-1;
            }
        }
        unsigned long gfp = forest_fingerprint(G);
        std::vector<int> cur(S.s.K()+1); for (int i=0;i<=S.s.K();i++) cur[i]=i;
        std::vector<int> gorder = cur;      // the order the bystander is expected to report
        bool declinedFlag=false;
        for (int round=0; round<2; round++) {
            const std::vector<int>* target = round==0 ? &pi : pi2;
            if (!target) break;
            ++ctx.transitions;
            try {
                F->reorderVariables(target->data());
            } catch (MEDDLY::error e) {
                if (e.getCode()==error::NOT_IMPLEMENTED || (e.getCode()==error::INVALID_OPERATION && S.swap=='L' && S.k.rel)) { char b[128]; snprintf(b,sizeof b,"reorder %s swap=%c: %s", S.k.name().c_str(), S.swap, e.getName()); if (declined_once.insert(b).second) declined("%s", b); ctx.counters["declined_cases"]++; declinedFlag=true; break; }
                violation("reorder-error","reorderVariables(%s) threw %s (%s:%u)", order_str(*target).c_str(), e.getName(), e.getFile(), e.getLine());
                declinedFlag=true; break;
            }
            // The oracle follows the order the forest itself reports.  A call that silently leaves another order than
            // the requested one (relation forests with LEVEL swap: policies::isLevelSwap() tests for VAR, so no swap
            // is performed) does not change any function and is not a violation of C13; it is counted and listed.
            std::vector<int> got(S.s.K()+1); F->getVariableOrder(got.data());
            { std::vector<int> chk(got.begin()+1, got.end()); std::sort(chk.begin(),chk.end()); bool perm=true; for (int i=0;i<S.s.K();i++) if (chk[i]!=i+1) perm=false;
              if (!perm) { violation("order-corrupt","after reorderVariables(%s) the forest reports the order %s, which is not a permutation", order_str(*target).c_str(), order_str(got).c_str()); break; } }
            if (got != *target) { ctx.counters["order_not_reached_cases"]++; char b[160]; snprintf(b,sizeof b,"reorder %s swap=%c heur=%s: call returns without reaching the requested order (no-op)", S.k.name().c_str(), S.swap, HEUR[S.heur]); if (declined_once.insert(b).second) declined("%s", b); }
            cur = got;
            Shape rs = reordered_shape(S.s, cur);
            unsigned long oc = 3;
            for (size_t i=0;i<reg.size();i++) {
                Table want = reordered_table(S.k,S.s,cur,rt[i]);
                std::string err = check_edge(reg[i],S.k,rs,want);
                if (!err.empty()) { violation("reorder-changed-function","after reorder to %s (round %d) register %zu [%s]: %s", order_str(cur).c_str(), round, i, tab_str(rt[i]).c_str(), err.c_str()); continue; }
                // canonical: identical to a fresh build of the permuted table
                Builder B2(F,S.k,rs); dd_edge x(F); B2.build(want, x);
                if (x != reg[i]) violation("reorder-noncanonical","after reorder to %s register %zu is not the canonical edge of its function", order_str(cur).c_str(), i);
                oc = hmix(oc, tab_hash(want));
            }
            note_outcome(hmix(oc, (unsigned long)F->getCurrentNumNodes()));
            std::string a = audit_forest(F,S.k);
            if (!a.empty()) violation("reorder-audit","after reorder to %s: %s", order_str(cur).c_str(), a.c_str());
            // operation after the reorder: compute tables must not serve pre-reorder entries
            if (op && opres>=0) {
                dd_edge r(F); op->compute(reg[0], reg[1], r);
                if (r != reg[opres]) violation("stale-after-reorder","operation repeated after reorder to %s gives a different edge than the held (reordered) result", order_str(cur).c_str());
            }
            // bystander untouched (it reports the order it was last given, its nodes and its edge are unchanged)
            if (forest_fingerprint(G) != gfp) violation("bystander-changed","forest over the same domain was modified by reordering another forest");
            std::vector<int> go(S.s.K()+1); G->getVariableOrder(go.data());
            for (int i=1;i<=S.s.K();i++) if (go[i]!=gorder[i]) { violation("bystander-order","bystander forest's variable order changed: it reports %s, it was last given %s", order_str(go).c_str(), order_str(gorder).c_str()); break; }
            { Shape gs = reordered_shape(S.s, gorder); std::string e2 = check_edge(gb,S.k,gs,reordered_table(S.k,S.s,gorder,S.cat[regs[0]]));
              if (!e2.empty()) violation("bystander-function","bystander edge: %s", e2.c_str()); }
            // "follow" variant: after the first reorder the bystander is given the same (non-default) order, so that the two
            // forests share one order; the second reorder of F must then leave the bystander where it is
            if (follow && round==0 && pi2) {
                try {
                    G->reorderVariables(cur.data());
                    G->getVariableOrder(go.data()); gorder = go;
                    Shape gs = reordered_shape(S.s, gorder); std::string e3 = check_edge(gb,S.k,gs,reordered_table(S.k,S.s,gorder,S.cat[regs[0]]));
                    if (!e3.empty()) violation("reorder-changed-function","bystander after its own reorder to %s: %s", order_str(gorder).c_str(), e3.c_str());
                    gfp = forest_fingerprint(G);
                } catch (MEDDLY::error e) { ctx.counters["declined_cases"]++; }
            }
        }
        (void)declinedFlag;
    }
    domain::destroy(d);
    lib_done();
    return g_rand_calls;
}

static void run_unit(const std::map<std::string,std::string>& spec)
{
    Scen S;
    S.k = kind_parse(spec_get(spec,"kind"));
    S.s = shape_by_name(spec_get(spec,"shape"));
    S.heur = (int)spec_int(spec,"heur",2);
    S.swap = spec_get(spec,"swap","V")[0];
    std::string second = spec_get(spec,"second","few");
    unsigned long cap = (unsigned long)spec_int(spec,"cap",64);
    S.V = alphabet(S.k); S.P = S.s.points(S.k.rel);
    unsigned long U = ipow(S.V.size(), S.P);
    std::vector<unsigned long> idx;
    if (S.heur==6) { cap = cap>=256 ? 24 : 10; if (second=="all") second = "few"; if (S.s.K()>=4) { cap = cap>=256 ? 8 : 4; second = "none"; } }   // RANDOM multiplies every case by all rand() answer scripts
    if (U <= cap) for (unsigned long i=0;i<U;i++) idx.push_back(i);
    else {
        idx = structured_family(S.k,S.s,S.V,1,true);
        // deterministic thinning to the cap: keep every ceil(n/cap)-th element (documented in the evidence as 'catalogue')
        if (idx.size()>cap) { std::vector<unsigned long> t; size_t step=(idx.size()+cap-1)/cap; for (size_t i=0;i<idx.size();i+=step) t.push_back(idx[i]); idx=t; }
    }
    for (unsigned long i : idx) S.cat.push_back(tab_from_index(i,S.P,S.V));
    int n = (int)S.cat.size();
    ctx.counters["catalogue"] = n;
    // register sets: every single function; every sharing triple (i, i+1, 2i+3)
    std::vector<std::vector<int>> regsets;
    for (int i=0;i<n;i++) regsets.push_back({i});
    for (int i=0;i<n;i++) regsets.push_back({i,(i+1)%n,(2*i+3)%n});
    // permutations
    int K = S.s.K();
    std::vector<std::vector<int>> perms;
    { std::vector<int> p(K); for (int i=0;i<K;i++) p[i]=i+1; do { std::vector<int> o(K+1); o[0]=0; for (int i=0;i<K;i++) o[i+1]=p[i]; perms.push_back(o); } while (std::next_permutation(p.begin(),p.end())); }
    std::vector<int> ident = perms.front(), rev = perms.back();

    for (auto& rs : regsets) for (int warm=0; warm<(rs.size()>1?2:1); warm++) for (auto& pi : perms) {
        if (ctx.stop) break;
        if (ctx.only<0 && ctx.upto<0 && ctx.viol>ctx.maxviol) { ctx.stop=true; break; }
        std::vector<const std::vector<int>*> seconds; seconds.push_back(nullptr);
        if (second=="all") { if (rs.size()>1) for (auto& q : perms) seconds.push_back(&q); else { seconds.push_back(&ident); seconds.push_back(&rev); } }
        else if (second=="few" && rs.size()>1) { seconds.push_back(&ident); seconds.push_back(&rev); }
        // (second order, bystander follows?) pairs: the follow variant is added for the orders identity and reverse
        std::vector<std::pair<const std::vector<int>*,bool>> plans; for (auto* q : seconds) plans.push_back({q,false});
        if (second!="none" && (rs.size()==1 || second=="all")) { plans.push_back({&ident,true}); plans.push_back({&rev,true}); }
        for (auto& plan : plans) {
            const std::vector<int>* pi2 = plan.first; const bool follow = plan.second;
            std::string rss; for (int r : rs) { rss += "[" + tab_str(S.cat[r]) + "]"; }
            // choice-point enumeration for RANDOM: depth-first over answer scripts; values 0..2 cover every residue of |inversions|<=3
            std::vector<std::vector<int>> todo; todo.push_back({});
            while (!todo.empty()) {
                std::vector<int> script = todo.back(); todo.pop_back();
                std::string ss; for (int v : script) ss += char('0'+v);
                if (!case_begin("kind=%s shape=%s heur=%s swap=%c regs=%s warm=%d reorder=%s then=%s rand=%s", S.k.name().c_str(), S.s.name.c_str(), HEUR[S.heur], S.swap, rss.c_str(), warm, order_str(pi).c_str(), pi2?(order_str(*pi2)+(follow?"+bystander-follows-first-order":"")).c_str():"-", ss.c_str())) {
                    // replay modes: keep the enumeration identical by still exploring the children (cheap)
                    if (ctx.stop) break;
                    if (S.heur!=6) continue;
                    ctx.quiet = true; long au=ctx.audits, tr=ctx.transitions;
                    size_t ncalls = exec_case(S, rs, warm, pi, pi2, script, follow);
                    ctx.quiet = false; ctx.audits=au; ctx.transitions=tr;
                    for (size_t pos=ncalls; pos-- > script.size();) for (int v=2; v>=1; v--) { std::vector<int> c = script; c.resize(pos,0); c.push_back(v); todo.push_back(c); }
                    continue;
                }
                size_t ncalls = exec_case(S, rs, warm, pi, pi2, script, follow);
                if (pi != ident) note_nontrivial(hstr(ctx.cur));
                if (S.heur==6) {
                    ctx.counters["rand_choice_points"] += (long)(ncalls > script.size() ? ncalls - script.size() : 0);
                    // extend at every choice point beyond the script (those were answered 0)
                    for (size_t pos=ncalls; pos-- > script.size();) for (int v=2; v>=1; v--) { std::vector<int> c = script; c.resize(pos,0); c.push_back(v); todo.push_back(c); }
                }
            }
        }
    }
}
int main(int argc, char** argv) { return std_main(argc, argv, list_units, run_unit); }
