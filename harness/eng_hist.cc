// E2 history model checker shared by C02 (reduction rules), C06 (node lifetime), C07 (compute-table transparency)
// and C12 (policy independence).  A state is the history that reaches it; every history of the alphabet up to the
// depth bound is executed on a fresh library instance, under every configuration of the profile's menu, and judged
// by reference tables, the auditor, a leak probe and a cross-configuration differential.
#include "common.h"

// ------------------------------------------------------------------------------------------------
enum { S_BUILD, S_BUILDM, S_CONST, S_VAR, S_OP, S_NOT, S_VIA, S_ASSIGN, S_SELFASSIGN, S_RELEASE, S_RELEASEALL, S_CLEAR, S_STALES, S_CLEARALL,
       S_DUP, S_UNDUP, S_CHURNUP, S_CHURNDOWN, S_WARM, S_BUILDR, S_IMG, S_REACH, S_DESTROYG, S_BUILDOP, S_CARD, S_SURGE, S_FRAG };
struct Sym { int type; int a,b,c,d; };

static const char* OPNAME[8] = {"op0","op1","op2","op3","op4","op5","op6","op7"};
static std::string sym_str(const Sym& y)
{
    char b[96];
    switch (y.type) {
        case S_BUILD: snprintf(b,sizeof b,"BUILD(r%d,f%d)",y.a,y.b); break;
        case S_BUILDM: snprintf(b,sizeof b,"BUILDMT(r%d,f%d)",y.a,y.b); break;
        case S_CONST: snprintf(b,sizeof b,"CONST(r%d,v%d)",y.a,y.b); break;
        case S_VAR: snprintf(b,sizeof b,"VAR(r%d,x%d%s,t%d)",y.a,y.b,y.c?"'":"",y.d); break;
        case S_OP: snprintf(b,sizeof b,"OP(%d,r%d,r%d->r%d)",y.a,y.b,y.c,y.d); break;
        case S_NOT: snprintf(b,sizeof b,"NOT(r%d->r%d)",y.a,y.b); break;
        case S_VIA: snprintf(b,sizeof b,"VIA(r%d->r%d)",y.a,y.b); break;
        case S_ASSIGN: snprintf(b,sizeof b,"ASSIGN(r%d->r%d)",y.a,y.b); break;
        case S_SELFASSIGN: snprintf(b,sizeof b,"SELFASSIGN(r%d)",y.a); break;
        case S_RELEASE: snprintf(b,sizeof b,"RELEASE(r%d)",y.a); break;
        case S_RELEASEALL: snprintf(b,sizeof b,"RELEASEALL"); break;
        case S_CLEAR: snprintf(b,sizeof b,"CLEAR"); break;
        case S_STALES: snprintf(b,sizeof b,"STALES"); break;
        case S_CLEARALL: snprintf(b,sizeof b,"CLEARALL"); break;
        case S_DUP: snprintf(b,sizeof b,"DUP(r%d,%d)",y.a,y.b); break;
        case S_UNDUP: snprintf(b,sizeof b,"UNDUP"); break;
        case S_CHURNUP: snprintf(b,sizeof b,"CHURNUP(%d)",y.a); break;
        case S_CHURNDOWN: snprintf(b,sizeof b,"CHURNDOWN"); break;
        case S_WARM: snprintf(b,sizeof b,"WARM(%d)",y.a); break;
        case S_BUILDR: snprintf(b,sizeof b,"BUILDREL(m%d)",y.a); break;
        case S_IMG: snprintf(b,sizeof b,"%s(r%d->r%d)",y.a?"PRE_IMAGE":"POST_IMAGE",y.b,y.c); break;
        case S_REACH: snprintf(b,sizeof b,"REACH(%s,r%d->r%d)",y.a==0?"TRAD_NOFS":y.a==1?"TRAD_FS":"SATUR",y.b,y.c); break;
        case S_DESTROYG: snprintf(b,sizeof b,"DESTROY_OTHER_FOREST"); break;
        case S_BUILDOP: snprintf(b,sizeof b,"BUILDOP(f%d,f%d,%d->r%d)",y.a,y.b,y.c,y.d); break;
        case S_CARD: snprintf(b,sizeof b,"CARD(r%d)",y.a); break;
        case S_SURGE: snprintf(b,sizeof b,"SURGE(r%d,%d,%d,%d)",y.a,y.b,y.c,y.d); break;
        case S_FRAG: snprintf(b,sizeof b,"FRAG(%d,%s)",y.a,y.b?"keep":"drop"); break;
        default: snprintf(b,sizeof b,"?");
    }
    return b;
}

struct Cfg { Pol pol; CTcfg ct; std::string name() const { return pol.name()+"/"+ct.name(); } };

struct Scn {
    std::string profile;
    Kind k; Shape s; bool relscn=false; char relrule='I';
    std::vector<double> V; long P=0; unsigned long U=0;
    std::vector<Table> cat, rcat;
    std::vector<Sym> alpha;
    std::vector<Cfg> cfgs;
    int depth=3; int nops=3;
    bool audit_each_step=false, leak_probe=false, differential=false;
};

// scalar semantics of the binary operations used by the alphabets
static double scal(const Kind& k, int o, double a, double b)
{
    if (k.range=='b') { switch (o) { case 0: return (a!=0||b!=0); case 1: return (a!=0&&b!=0); default: return (a!=0&&b==0); } }
    switch (o) { case 0: return std::max(a,b); case 1: return std::min(a,b); case 2: return a+b; default: return (a==INF||b==INF) ? INF : a*b; }
}
static binary_factory& opfac(const Kind& k, int o)
{
    if (k.range=='b') return o==0 ? UNION() : o==1 ? INTERSECTION() : DIFFERENCE();
    return o==0 ? MAXIMUM() : o==1 ? MINIMUM() : o==2 ? PLUS() : MULTIPLY();
}

// minterm-collection construction (listing every non-default point; reversed order)
static void build_by_coll(forest* F, const Kind& k, const Shape& s, const Table& t, dd_edge& out)
{
    long P = s.points(k.rel);
    minterm_coll mc((unsigned)P+1, F);
    double dmin = INF; for (double v : t) dmin = std::min(dmin, v);
    bool useMin = k.isEVp();
    double deflt = useMin ? INF : (k.range=='b' ? 0.0 : dmin);
    for (long p=P-1;p>=0;p--) {
        if (t[p]==deflt) continue;
        set_point(mc.unused(), k, s, p);
        mc.unused().setValue(to_rangeval(k, t[p]));
        mc.pushUnused();
    }
    if (useMin) mc.buildFunctionMin(to_rangeval(k,deflt), out);
    else mc.buildFunctionMax(to_rangeval(k,deflt), out);
}

// relational reference models on the point graph (set points <-> relation table)
static Table img_model(const Shape& s, const Table& set, const Table& rel, bool pre)
{
    long N = s.setPoints(); Table out(N, 0.0);
    int x[16], xp[16];
    for (long p=0;p<s.relPoints();p++) { if (rel[p]==0) continue; decode_rel(s,p,x,xp); long a=encode_set(s,x), b=encode_set(s,xp); if (!pre) { if (set[a]!=0) out[b]=1; } else { if (set[b]!=0) out[a]=1; } }
    return out;
}
static Table reach_model(const Shape& s, const Table& set, const Table& rel)
{
    Table cur = set; for (double& v : cur) v = (v!=0);
    for (;;) { Table nx = img_model(s,cur,rel,false); bool ch=false; for (size_t i=0;i<cur.size();i++) if (nx[i]!=0 && cur[i]==0) { cur[i]=1; ch=true; } if (!ch) break; }
    return cur;
}

struct Obs { std::vector<unsigned long> sig; };

// ------------------------------------------------------------------------------------------------
// one execution of one history under one configuration
// ------------------------------------------------------------------------------------------------
static void exec_history(const Scn& H, const std::vector<int>& hist, const Cfg& cfg, Obs& obs)
{
    lib_init(cfg.ct);
    domain* d = make_domain(H.s);
    forest* F = make_forest(d,H.k,cfg.pol);
    Kind gk = H.k; gk.rr = (H.k.rr=='F') ? 'Q' : 'F';
    forest* G = make_forest(d,gk,cfg.pol);
    Kind rk; rk.rel=true; rk.range='b'; rk.lab='m'; rk.rr=H.relrule;
    forest* R = H.relscn ? make_forest(d,rk,cfg.pol) : nullptr;
    const double dflt = H.k.dflt();
    if (F && G) {
        Builder B(F,H.k,H.s);
        dd_edge reg[3] = {dd_edge(F),dd_edge(F),dd_edge(F)};
        for (int i=0;i<3;i++) F->createConstant(to_rangeval(H.k,dflt), reg[i]);   // registers start as the default (transparent) function
        Table rt[3] = {Table(H.P,dflt),Table(H.P,dflt),Table(H.P,dflt)};
        dd_edge rreg(R ? R : F); Table rrt(H.s.relPoints(), 0.0);
        std::vector<dd_edge> dups, churn;
        bool Galive = true;
        binary_operation* ops[4] = {nullptr,nullptr,nullptr,nullptr};
        for (int o=0;o<H.nops;o++) ops[o] = get_bop(opfac(H.k,o),F,F,F,OPNAME[o]);
        unary_operation* c1 = get_uop(COPY(),F,G,"COPY"); unary_operation* c2 = get_uop(COPY(),G,F,"COPY");
        unary_operation* cmpl = H.k.range=='b' && H.k.isMT() ? get_uop(COMPLEMENT(),F,F,"COMPLEMENT") : nullptr;
        bool ok = true; size_t step=0;
        AuditOpts stepAudit; stepAudit.structure=false; stepAudit.refcounts=true; stepAudit.cachecounts=true;
        for (int si : hist) {
            const Sym& y = H.alpha[si];
            ++ctx.transitions; ++step;
            try {
            switch (y.type) {
                case S_BUILD: B.build(H.cat[y.b], reg[y.a]); rt[y.a]=H.cat[y.b]; break;
                case S_BUILDM: build_by_coll(F,H.k,H.s,H.cat[y.b],reg[y.a]); rt[y.a]=H.cat[y.b]; break;
                case S_CONST: F->createConstant(to_rangeval(H.k,H.V[y.b]), reg[y.a]); rt[y.a].assign(H.P,H.V[y.b]); break;
                case S_VAR: {
                    int var=y.b; bool pr=y.c; int b=H.s.b[var-1];
                    std::vector<rangeval> terms; std::vector<double> tv;
                    for (int i=0;i<b;i++) { double v = y.d<0 ? (double)i : H.V[(i*(y.d+1)+y.d) % H.V.size()]; if (y.d<0 && H.k.range=='b') v = (i!=0); tv.push_back(v); terms.push_back(to_rangeval(H.k,v)); }
                    if (y.d<0 && H.k.range!='b') F->createEdgeForVar(var, pr, reg[y.a]); else F->createEdgeForVar(var, pr, terms.data(), reg[y.a]);
                    int x[16], xp[16];
                    for (long p=0;p<H.P;p++) { if (H.k.rel) { decode_rel(H.s,p,x,xp); rt[y.a][p] = tv[pr?xp[var]:x[var]]; } else { decode_set(H.s,p,x); rt[y.a][p]=tv[x[var]]; } }
                    break; }
                case S_OP: if (ops[y.a]) { Table t(H.P); for (long p=0;p<H.P;p++) t[p]=scal(H.k,y.a,rt[y.b][p],rt[y.c][p]); ops[y.a]->compute(reg[y.b],reg[y.c],reg[y.d]); rt[y.d]=t; } break;
                case S_NOT: if (cmpl) { Table t(H.P); for (long p=0;p<H.P;p++) t[p]=(rt[y.a][p]==0); cmpl->compute(reg[y.a],reg[y.b]); rt[y.b]=t; } break;
                case S_VIA: if (Galive && c1 && c2) { dd_edge mid(G); c1->compute(reg[y.a],mid); c2->compute(mid,reg[y.b]); rt[y.b]=rt[y.a]; } break;
                case S_ASSIGN: reg[y.b] = reg[y.a]; rt[y.b]=rt[y.a]; break;
                case S_SELFASSIGN: { dd_edge& r = reg[y.a]; r = r; } break;
                case S_RELEASE: F->createConstant(to_rangeval(H.k,dflt), reg[y.a]); rt[y.a].assign(H.P,dflt); break;
                case S_RELEASEALL: for (int i=0;i<3;i++) { F->createConstant(to_rangeval(H.k,dflt), reg[i]); rt[i].assign(H.P,dflt); } dups.clear(); churn.clear(); break;
                case S_CLEAR: F->removeAllComputeTableEntries(); break;
                case S_STALES: compute_table::removeStalesFromMonolithic(); break;
                case S_CLEARALL: if (!compute_table::removeAllFromMonolithic()) { F->removeAllComputeTableEntries(); if (Galive) G->removeAllComputeTableEntries(); if (R) R->removeAllComputeTableEntries(); } break;
                case S_DUP: dups.insert(dups.end(), (size_t)y.b, reg[y.a]); break;
                case S_UNDUP: dups.clear(); break;
                case S_SURGE: // reference count up to b copies, down to c, up again to d (counter widths grow, then the population shrinks and regrows)
                    dups.clear(); dups.insert(dups.end(), (size_t)y.b, reg[y.a]); dups.resize((size_t)y.c, dd_edge(F)); dups.insert(dups.end(), (size_t)(y.d-y.c), reg[y.a]); break;
                case S_CHURNUP: for (int i=0;i<y.a;i++) { churn.emplace_back(F); B.build(tab_from_index(((unsigned long)i*37+5)%H.U,H.P,H.V), churn.back()); } break;
                case S_CHURNDOWN: churn.clear(); break;
                case S_FRAG: { // fragment and coalesce node memory: build n functions, release every other one, build n/2 others into the holes,
                    // release the first batch from the end backwards; optionally keep the second batch
                    std::vector<dd_edge> f1, f2;
                    for (int i=0;i<y.a;i++) { f1.emplace_back(F); B.build(tab_from_index(((unsigned long)i*37+5)%H.U,H.P,H.V), f1.back()); }
                    for (int i=1;i<y.a;i+=2) f1[i].set(F->getTransparentEdge(), F->getTransparentNode());
                    for (int i=0;i<y.a/2;i++) { f2.emplace_back(F); B.build(tab_from_index(((unsigned long)i*53+11)%H.U,H.P,H.V), f2.back()); }
                    while (!f1.empty()) f1.pop_back();
                    if (y.b) for (auto& e : f2) churn.push_back(e);
                    } break;
                case S_WARM: if (ops[0]) { dd_edge a(F), b(F), c(F); for (int i=0;i<y.a;i++) { B.build(tab_from_index(((unsigned long)i*53+11)%H.U,H.P,H.V),a); B.build(tab_from_index(((unsigned long)i*29+3)%H.U,H.P,H.V),b); ops[i%H.nops] ? ops[i%H.nops]->compute(a,b,c) : ops[0]->compute(a,b,c); } } break;
                case S_BUILDR: if (R) { Builder BR(R,rk,H.s); BR.build(H.rcat[y.a], rreg); rrt=H.rcat[y.a]; } break;
                case S_IMG: if (R) { binary_operation* op = get_bop(y.a?PRE_IMAGE():POST_IMAGE(),F,R,F,"IMAGE"); if (op) { Table t = img_model(H.s,rt[y.b],rrt,y.a); op->compute(reg[y.b],rreg,reg[y.c]); rt[y.c]=t; } } break;
                case S_REACH: if (R) { binary_operation* op = get_bop(y.a==0?REACHABLE_TRAD_NOFS(true):y.a==1?REACHABLE_TRAD_FS(true):REACHABLE_SATUR(true),F,R,F,"REACH"); if (op) { Table t = reach_model(H.s,rt[y.b],rrt); op->compute(reg[y.b],rreg,reg[y.c]); rt[y.c]=t; } } break;
                case S_DESTROYG: if (Galive) { forest::destroy(G); Galive=false; } break;
                case S_BUILDOP: { dd_edge a(F), b(F); B.build(H.cat[y.a],a); B.build(H.cat[y.b],b); int o=y.c;
                    if (o<H.nops && ops[o]) { Table t(H.P); for (long p=0;p<H.P;p++) t[p]=scal(H.k,o,H.cat[y.a][p],H.cat[y.b][p]); ops[o]->compute(a,b,reg[y.d]); rt[y.d]=t; }
                    else if (o==H.nops && Galive && c1 && c2) { dd_edge mid(G); c1->compute(a,mid); c2->compute(mid,reg[y.d]); rt[y.d]=H.cat[y.a]; }
                    break; }
                case S_CARD: { long c=0; apply(CARDINALITY, reg[y.a], c); long want=0; for (double v : rt[y.a]) if (v!=dflt) ++want; if (c!=want) violation("hist-cardinality","step %zu %s: CARDINALITY returned %ld, the register holds %ld non-default points", step, sym_str(y).c_str(), c, want); } break;
            }
            } catch (MEDDLY::error e) { violation("hist-error","step %zu %s threw %s (%s:%u)", step, sym_str(y).c_str(), e.getName(), e.getFile(), e.getLine()); ok=false; break; }
            if (H.audit_each_step) {
                std::string a = audit_forest(F,H.k,stepAudit);
                if (!a.empty()) { violation("hist-audit-step","after step %zu %s: %s", step, sym_str(y).c_str(), a.c_str()); ok=false; break; }
                for (int i=0;i<3;i++) { Table x; read_eval(reg[i],H.k,H.s,x); if (!tab_eq(H.k,x,rt[i])) { violation("hist-readback-step","after step %zu %s register r%d reads [%s] expected [%s]", step, sym_str(y).c_str(), i, tab_str(x).c_str(), tab_str(rt[i]).c_str()); ok=false; break; } }
                if (!ok) break;
            }
        }
        if (ok) {
            // ---- oracle at the quiescent point reached by the history ----
            unsigned long oc = 5;
            for (int i=0;i<3;i++) {
                std::string err = check_edge(reg[i],H.k,H.s,rt[i]);
                if (!err.empty()) { violation("hist-readback", "register r%d: %s", i, err.c_str()); ok=false; }
                oc = hmix(oc, tab_hash(rt[i])+i);
                obs.sig.push_back(tab_hash(rt[i]));
                obs.sig.push_back(reg[i].getNodeCount());
                obs.sig.push_back(reg[i].getEdgeCount(false));
                std::unordered_map<node_handle,unsigned long> memo; obs.sig.push_back(hmix(dag_sig(F,reg[i].getNode(),memo), ev_bits(reg[i].getEdgeValue())));
            }
            for (int i=0;i<3 && ok;i++) for (int j=i+1;j<3;j++) {
                bool eqt = tab_eq(H.k,rt[i],rt[j]) && H.k.range!='r'; bool eqe = (reg[i]==reg[j]);
                if (H.k.range!='r' && eqt != eqe) violation("hist-eq", "registers r%d and r%d: tables %s but edges %s", i, j, eqt?"equal":"differ", eqe?"equal":"differ");
            }
            if (R) { std::string err = check_edge(rreg,rk,H.s,rrt); if (!err.empty()) violation("hist-readback","relation register: %s", err.c_str()); }
            oc = hmix(oc, (unsigned long)F->getCurrentNumNodes());
            note_outcome(oc);
            std::string a = audit_forest(F,H.k);
            if (!a.empty()) { violation("hist-audit","%s", a.c_str()); ok=false; }
            if (ok && Galive) { a = audit_forest(G,gk); if (!a.empty()) { violation("hist-audit","helper forest: %s", a.c_str()); ok=false; } }
            if (ok && R) { a = audit_forest(R,rk); if (!a.empty()) { violation("hist-audit","relation forest: %s", a.c_str()); ok=false; } }
            // canonical: a fresh harness build of each register's table is the identical edge
            if (ok && H.k.range!='r') for (int i=0;i<3;i++) { dd_edge x(F); B.build(rt[i], x); if (x != reg[i]) { violation("hist-noncanonical", "register r%d [%s] differs from a fresh harness build of the same table", i, tab_str(rt[i]).c_str()); ok=false; } }
            // ---- leak probe (C06): release everything, clear caches, everything must be reclaimed ----
            if (ok && H.leak_probe) {
                for (int i=0;i<3;i++) reg[i].set(F->getTransparentEdge(), F->getTransparentNode());
                rreg.set((R?R:F)->getTransparentEdge(), (R?R:F)->getTransparentNode());
                dups.clear(); churn.clear();
                F->removeAllComputeTableEntries(); if (Galive) G->removeAllComputeTableEntries(); if (R) R->removeAllComputeTableEntries();
                struct FK { forest* f; Kind k; const char* nm; };
                std::vector<FK> fl; fl.push_back({F,H.k,"main"}); if (Galive) fl.push_back({G,gk,"helper"}); if (R) fl.push_back({R,rk,"relation"});
                for (auto& fk : fl) {
                    // nodes still active must be reachable from a still-registered edge (operations may keep registered edges)
                    std::set<node_handle> seen; std::vector<node_handle> st;
                    for (const dd_edge* r = fk.f->roots; r; r=r->next) if (r->getNode()>0 && seen.insert(r->getNode()).second) st.push_back(r->getNode());
                    while (!st.empty()) { node_handle p=st.back(); st.pop_back(); NodeView nv; view_of(fk.f,p,FULL_ONLY,nv); for (node_handle c : nv.down) if (c>0 && seen.insert(c).second) st.push_back(c); }
                    long leaked=0; node_handle ex=0;
                    for (node_handle p=1;p<=fk.f->getLastNode();p++) if (fk.f->isActiveNode(p) && !seen.count(p)) { ++leaked; if (!ex) ex=p; }
                    if (leaked) { violation("leak","after releasing every edge and clearing the caches the %s forest still holds %ld unreachable node(s), e.g. node %d (incoming count %lu, cache count %lu)", fk.nm, leaked, (int)ex, fk.f->getNodeInCount(ex), fk.f->nodeHeaders.getNodeCacheCount(ex)); ok=false; break; }
                    std::string a2 = audit_forest(fk.f,fk.k); if (!a2.empty()) { violation("leak-audit","%s forest after release: %s", fk.nm, a2.c_str()); ok=false; break; }
                }
                // handles are reused only after reclaim: the whole catalogue builds and reads back
                if (ok) for (size_t i=0;i<H.cat.size();i++) { dd_edge x(F); B.build(H.cat[i],x); Table t; read_eval(x,H.k,H.s,t); if (!tab_eq(H.k,t,H.cat[i])) { violation("reuse-corrupt","after reclaim, catalogue function %zu reads [%s]", i, tab_str(t).c_str()); break; } }
            }
        }
    }
    domain::destroy(d);
    lib_done();
}

// ------------------------------------------------------------------------------------------------
// scenarios
// ------------------------------------------------------------------------------------------------
static std::vector<Table> pick_catalogue(const Kind& k, const Shape& s, const std::vector<double>& V, size_t n)
{
    long P = s.points(k.rel); unsigned long U = ipow(V.size(),P);
    std::vector<unsigned long> idx;
    if (U<=n) for (unsigned long i=0;i<U;i++) idx.push_back(i);
    else { std::vector<unsigned long> fam = structured_family(k,s,V,1,true); size_t step=(fam.size()+n-1)/n; for (size_t i=0;i<fam.size() && idx.size()<n;i+=step) idx.push_back(fam[i]); idx.push_back(fam.back()); }
    std::vector<Table> c; for (unsigned long i : idx) c.push_back(tab_from_index(i,P,V));
    return c;
}

static void make_scn(Scn& H, const std::map<std::string,std::string>& spec)
{
    H.profile = spec_get(spec,"profile");
    H.k = kind_parse(spec_get(spec,"kind"));
    H.s = shape_by_name(spec_get(spec,"shape"));
    H.depth = (int)spec_int(spec,"depth",3);
    H.relscn = spec_get(spec,"rel","")!="";
    if (H.relscn) H.relrule = spec_get(spec,"rel")[0];
    H.V = alphabet(H.k); H.P = H.s.points(H.k.rel); H.U = ipow(H.V.size(),H.P);
    H.nops = H.k.range=='b' ? 3 : (H.k.isEVp() ? 3 : 4);
    size_t ncat = (size_t)spec_int(spec,"cat",8);
    H.cat = pick_catalogue(H.k,H.s,H.V,ncat);
    int nc = (int)H.cat.size();
    if (H.relscn) { Kind rk; rk.rel=true; rk.range='b'; rk.lab='m'; rk.rr=H.relrule; H.rcat = pick_catalogue(rk,H.s,{0,1},6); }
    auto add = [&](int t,int a=0,int b=0,int c=0,int d=0){ H.alpha.push_back(Sym{t,a,b,c,d}); };
    // configurations
    std::string cfgsel = spec_get(spec,"cfgs","default");
    if (cfgsel=="default") H.cfgs.push_back(Cfg{pol_parse(spec_get(spec,"pol","eao")),CTcfg()});
    else if (cfgsel=="pols36") for (const Pol& p : all_pols()) H.cfgs.push_back(Cfg{p,CTcfg()});
    else if (cfgsel=="pols6") for (const Pol& p : covering_pols()) H.cfgs.push_back(Cfg{p,CTcfg()});
    else if (cfgsel=="ct36" || cfgsel=="ct12") {
        for (char st : {'u','c','U','C'}) for (char sl : {'m','a','l'}) for (unsigned long mx : {1024UL,4096UL,16777216UL}) {
            if (cfgsel=="ct12" && mx!=1024UL) continue;
            CTcfg c; c.style=st; c.stale=sl; c.maxSize=mx; H.cfgs.push_back(Cfg{pol_parse(spec_get(spec,"pol","eao")),c});
        }
        if (spec_int(spec,"compress",0)) { size_t n=H.cfgs.size(); for (size_t i=0;i<n;i++) { Cfg c=H.cfgs[i]; c.ct.compress=true; H.cfgs.push_back(c); } }
    }
    // alphabets, simplest first
    if (H.profile=="c02") {
        for (int r=0;r<2;r++) for (int f=0;f<nc;f++) add(S_BUILD,r,f);
        for (int f=0;f<nc;f++) add(S_BUILDM,2,f);
        for (int v=0;v<(int)H.V.size();v++) add(S_CONST,2,v);
        for (int var=1;var<=H.s.K();var++) for (int pr=0;pr<(H.k.rel?2:1);pr++) for (int t=-1;t<2;t++) add(S_VAR,(var+pr)%3,var,pr,t);
        for (int o=0;o<H.nops;o++) { add(S_OP,o,0,1,2); add(S_OP,o,2,0,0); add(S_OP,o,1,1,1); }
        if (H.k.range=='b' && H.k.isMT()) { add(S_NOT,0,2); add(S_NOT,2,2); }
        add(S_VIA,0,2); add(S_VIA,2,1);
        for (int r=0;r<3;r++) add(S_RELEASE,r);
        add(S_CLEAR);
    } else if (H.profile=="c06") {
        for (int r=0;r<2;r++) for (int f=0;f<nc;f++) add(S_BUILD,r,f);
        for (int o=0;o<H.nops;o++) { add(S_OP,o,0,1,2); add(S_OP,o,2,1,1); add(S_OP,o,0,0,0); }
        if (H.k.range=='b' && H.k.isMT()) add(S_NOT,0,2);
        add(S_VIA,0,2); add(S_VIA,1,1);
        add(S_ASSIGN,0,1); add(S_ASSIGN,2,0); add(S_SELFASSIGN,0);
        for (int r=0;r<3;r++) add(S_RELEASE,r);
        add(S_RELEASEALL); add(S_CLEAR); add(S_STALES);
        for (int n : {254,255,256,257,65535,65536,65537}) add(S_DUP,0,n);
        add(S_UNDUP);
        add(S_SURGE,0,65537,100,300); add(S_SURGE,1,300,10,70000);
        add(S_CHURNUP,600); add(S_CHURNDOWN); add(S_FRAG,300,0); add(S_FRAG,120,1);
        add(S_DESTROYG);
        if (H.relscn) { for (int m=0;m<(int)H.rcat.size();m++) add(S_BUILDR,m); add(S_IMG,0,0,2); add(S_IMG,1,0,2); add(S_IMG,0,2,2); for (int a=0;a<3;a++) add(S_REACH,a,0,2); add(S_REACH,2,2,1); }
    } else if (H.profile=="c07") {
        int nb = std::min(nc,5);
        for (int i=0;i<nb;i++) for (int j=0;j<nb;j++) for (int o=0;o<=H.nops;o++) { if (o==H.nops && j!=0) continue; add(S_BUILDOP,i,j,o,(i+j+o)%3); }
        for (int r=0;r<3;r++) add(S_RELEASE,r);
        add(S_RELEASEALL); add(S_CLEAR); add(S_STALES); add(S_CLEARALL);
        add(S_WARM,600); add(S_CHURNUP,20); add(S_CHURNDOWN);
        if (H.k.range=='b' || H.k.isEVp() || H.k.isMT()) add(S_CARD,0);
        if (H.relscn) { for (int m=0;m<(int)H.rcat.size();m++) add(S_BUILDR,m); for (int r=0;r<2;r++) add(S_BUILD,r,(r*3+1)%nc); add(S_IMG,0,0,2); add(S_IMG,1,1,2); for (int a2=0;a2<3;a2++) { add(S_REACH,a2,0,2); add(S_REACH,a2,1,0); } }
        H.audit_each_step = true;
    } else { // c12
        for (int r=0;r<2;r++) for (int f=0;f<nc;f++) add(S_BUILD,r,f);
        for (int o=0;o<H.nops;o++) { add(S_OP,o,0,1,2); add(S_OP,o,2,1,1); }
        add(S_VIA,0,2);
        for (int r=0;r<3;r++) add(S_RELEASE,r);
        add(S_CLEAR); add(S_CHURNUP,600); add(S_CHURNDOWN); add(S_CHURNUP,20); add(S_FRAG,300,0); add(S_FRAG,120,1);
        if (H.relscn) { for (int m=0;m<(int)H.rcat.size();m++) add(S_BUILDR,m); add(S_IMG,0,0,2); add(S_IMG,1,1,2); for (int a2=0;a2<3;a2++) add(S_REACH,a2,0,2); }
    }
    H.leak_probe = (H.profile=="c06");
    H.differential = H.cfgs.size()>1;
}

static void list_units(const std::string& tier0)
{
    std::string tier = tier0, variant = "rel";
    size_t c = tier.find(':'); if (c!=std::string::npos) { variant = tier.substr(c+1); tier = tier.substr(0,c); }
    bool th = tier=="thorough", asan = variant=="asan";
    const char* prof = getenv("VERIF_PROP"); std::string P = prof ? prof : ""; for (char& ch : P) ch = (char)tolower(ch);
    auto emit = [&](const std::string& base, int nfirst_hint) {
        // split by the first symbol into `nfirst_hint` slices for parallelism
        for (int sl=0; sl<nfirst_hint; sl++) printf("%s,slice=%d,slices=%d\n", base.c_str(), sl, nfirst_hint);
    };
    char b[256];
    if (P=="c02") {
        std::vector<std::string> kinds;
        for (const Kind& k : all_set_kinds()) kinds.push_back(k.name());
        for (const Kind& k : all_rel_kinds()) kinds.push_back(k.name());
        for (auto& k : kinds) {
            bool rel = k[0]=='R';
            std::vector<std::string> shapes = rel ? std::vector<std::string>{"S3"} : std::vector<std::string>{"S4"};
            if (th) shapes = rel ? std::vector<std::string>{"S3","S4"} : std::vector<std::string>{"S4","S5","S7"};
            for (auto& sh : shapes) { snprintf(b,sizeof b,"profile=c02,kind=%s,shape=%s,depth=%d,cat=%d,cfgs=%s", k.c_str(), sh.c_str(), asan?2:3, th?8:6, th?"pols36":"pols6"); emit(b, th?8:2); }
        }
    } else if (P=="c06") {
      if (!th) {
        for (const char* pol : {"eao","eap","ean","sgp","fho"}) {
            if (asan && strcmp(pol,"eao") && strcmp(pol,"eap")) continue;
            for (const char* k : {"S:MTb:F","S:MTi:Q","S:EVpi:F","R:MTb:I","R:EVtr:F"}) {
                const char* sh = k[0]=='R' ? "S3" : "S7";
                // quick: depth 3 for the optimistic/pessimistic defaults on two kinds, depth 2 elsewhere
                bool deep = (!strcmp(pol,"eao") || !strcmp(pol,"eap")) && (!strcmp(k,"S:MTb:F") || !strcmp(k,"R:MTb:I"));
                int depth = asan ? 2 : (deep ? 3 : 2);
                if (asan && !deep) continue;
                snprintf(b,sizeof b,"profile=c06,kind=%s,shape=%s,depth=%d,cat=8,pol=%s", k, sh, depth, pol); emit(b, depth>=3 ? 16 : 2);
            }
            for (const char* rr : {"I","F"}) for (const char* k : {"S:MTb:F","S:MTb:Q"}) {
                bool deep = (!strcmp(pol,"eao") || !strcmp(pol,"eap")) && !strcmp(rr,"I") && !strcmp(k,"S:MTb:F");
                int depth = asan ? 2 : (deep ? 3 : 2);
                if (asan && !deep) continue;
                snprintf(b,sizeof b,"profile=c06,kind=%s,shape=S4,depth=%d,cat=6,pol=%s,rel=%s", k, depth, pol, rr); emit(b, depth>=3 ? 16 : 2);
            }
        }
      } else {
        // thorough (sized from a measured run: the first layout needed ~80 CPU-hours): depth 3 everywhere it is offered, depth 4 on one family
        if (!asan) {
            for (const char* pol : {"eao","eap","ean","sgp","fho"}) for (const char* k : {"S:MTb:F","R:MTb:I"}) {
                snprintf(b,sizeof b,"profile=c06,kind=%s,shape=%s,depth=3,cat=8,pol=%s", k, k[0]=='R'?"S3":"S7", pol); emit(b, 16); }
            for (const char* pol : {"eao","eap"}) for (const char* k : {"S:MTi:Q","S:EVpi:F","R:EVtr:F"}) {
                snprintf(b,sizeof b,"profile=c06,kind=%s,shape=%s,depth=3,cat=8,pol=%s", k, k[0]=='R'?"S3":"S7", pol); emit(b, 16); }
            for (const char* pol : {"eao","eap"}) for (const char* rr : {"I","F"}) { snprintf(b,sizeof b,"profile=c06,kind=S:MTb:F,shape=S4,depth=3,cat=6,pol=%s,rel=%s", pol, rr); emit(b, 16); }
            snprintf(b,sizeof b,"profile=c06,kind=S:MTb:Q,shape=S4,depth=3,cat=6,pol=eao,rel=I"); emit(b, 16);
            snprintf(b,sizeof b,"profile=c06,kind=R:MTb:I,shape=S3,depth=4,cat=4,pol=eao"); emit(b, 48);
        } else {
            for (const char* pol : {"eao","eap"}) for (const char* k : {"S:MTb:F","R:MTb:I"}) {
                snprintf(b,sizeof b,"profile=c06,kind=%s,shape=%s,depth=3,cat=4,pol=%s", k, k[0]=='R'?"S3":"S7", pol); emit(b, 16); }
            snprintf(b,sizeof b,"profile=c06,kind=S:MTb:F,shape=S4,depth=3,cat=4,pol=eao,rel=I"); emit(b, 16);
        }
      }
    } else if (P=="c07") {
        // quick:    depth 2 x 12 configurations (4 styles x 3 stale options, maximum size 1024) + depth 3 on the default configuration
        // thorough: depth 2 x 72 configurations (x 3 maximum sizes x entry compression) + depth 3 x the 12 configurations
        // (depth 3 x 72 configurations measured at ~110 CPU-hours; it is not offered)
        for (const char* pol : {"eao","eap"}) for (const char* k : {"S:MTb:F","S:MTi:Q","R:MTb:I"}) {
            const char* sh = k[0]=='R' ? "S3" : "S7";
            snprintf(b,sizeof b,"profile=c07,kind=%s,shape=%s,depth=2,cat=5,pol=%s,cfgs=%s,compress=%d", k, sh, pol, th?"ct36":"ct12", th?1:0); emit(b, 8);
            if (!th) { snprintf(b,sizeof b,"profile=c07,kind=%s,shape=%s,depth=3,cat=4,pol=%s,cfgs=default", k, sh, pol); emit(b, 8); }
            else { snprintf(b,sizeof b,"profile=c07,kind=%s,shape=%s,depth=3,cat=4,pol=%s,cfgs=ct12,compress=0", k, sh, pol); emit(b, 64); }
        }
        // relation scenario: image / reachability / saturation operations (their own caches and cached relation split) under every CT configuration
        for (const char* pol : {"eao","eap"}) { snprintf(b,sizeof b,"profile=c07,kind=S:MTb:F,shape=S4,depth=2,cat=4,pol=%s,rel=I,cfgs=%s", pol, th?"ct36":"ct12"); emit(b, 8);
            if (!th) { snprintf(b,sizeof b,"profile=c07,kind=S:MTb:F,shape=S4,depth=3,cat=3,pol=%s,rel=I,cfgs=default", pol); emit(b, 8); }
            else { snprintf(b,sizeof b,"profile=c07,kind=S:MTb:F,shape=S4,depth=3,cat=3,pol=%s,rel=I,cfgs=ct12", pol); emit(b, 32); } }
    } else if (P=="c12") {
        for (const char* k : {"S:MTi:Q","R:MTb:I","S:EVpi:F","R:EVtr:F","S:MTb:F"}) {
            const char* sh = k[0]=='R' ? "S3" : "S7";
            snprintf(b,sizeof b,"profile=c12,kind=%s,shape=%s,depth=%d,cat=%d,cfgs=%s", k, sh, th?3:2, th?8:6, th?"pols36":"pols36"); emit(b, th?16:4);
        }
        snprintf(b,sizeof b,"profile=c12,kind=S:MTb:F,shape=S4,depth=%d,cat=4,rel=I,cfgs=pols36", th?3:2); emit(b, th?16:4);
        // quick tier: depth 3 over a four-function alphabet for one relation kind with edge values (node memory of three sizes is
        // requested and recycled around a FRAG symbol; this is the history shape that exposed seed C12-1 in the thorough tier)
        if (!th) { snprintf(b,sizeof b,"profile=c12,kind=R:EVtr:F,shape=S3,depth=3,cat=4,cfgs=pols36"); emit(b, 12); }
    }
}

static void run_unit(const std::map<std::string,std::string>& spec)
{
    Scn H; make_scn(H, spec);
    int slice = (int)spec_int(spec,"slice",0), slices = (int)spec_int(spec,"slices",1);
    const int A = (int)H.alpha.size();
    ctx.counters["alphabet"] = A; ctx.counters["depth"] = H.depth; ctx.counters["configs"] = (long)H.cfgs.size();
    std::vector<int> hist;
    for (int len=1; len<=H.depth && !ctx.stop; len++) {
        hist.assign(len, 0);
        for (;;) {
            if (ctx.stop) break;
            if (ctx.only<0 && ctx.upto<0 && ctx.viol>ctx.maxviol) { ctx.stop=true; break; }
            if (hist[0] % slices == slice) {
                std::string hs; for (int si : hist) { hs += sym_str(H.alpha[si]); hs += ' '; }
                Obs first; std::string firstname;
                for (size_t ci=0; ci<H.cfgs.size(); ci++) {
                    const Cfg& cfg = H.cfgs[ci];
                    if (!case_begin("%s kind=%s shape=%s%s%s cfg=%s : %s", H.profile.c_str(), H.k.name().c_str(), H.s.name.c_str(), H.relscn?" rel=":"", H.relscn?std::string(1,H.relrule).c_str():"", cfg.name().c_str(), hs.c_str())) {
                        if (ctx.stop) break;
                        // replay of a later configuration of the same history still needs the reference observation
                        if (H.differential && ci==0 && (ctx.only>=0) ) { ctx.quiet=true; long au=ctx.audits,tr=ctx.transitions; Obs o; exec_history(H,hist,cfg,o); first=o; firstname=cfg.name(); ctx.quiet=false; ctx.audits=au; ctx.transitions=tr; }
                        continue;
                    }
                    Obs o; long v0 = ctx.viol;
                    exec_history(H, hist, cfg, o);
                    if (len>=2) note_nontrivial(hmix(hstr(hs),ci));
                    if (H.differential && ctx.viol==v0) {
                        if (firstname.empty()) { first=o; firstname=cfg.name(); }
                        else if (o.sig != first.sig) violation("differential","observable outcome (register tables, node/edge counts, DAG signatures) under configuration %s differs from configuration %s", cfg.name().c_str(), firstname.c_str());
                    }
                }
            }
            int i=len-1;
            while (i>=0 && ++hist[i]==A) { hist[i]=0; --i; }
            if (i<0) break;
        }
    }
}
int main(int argc, char** argv) { return std_main(argc, argv, list_units, run_unit); }
