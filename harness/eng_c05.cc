// C05 element-wise arithmetic, comparisons, min/max, distance ops, user-defined unary maps, range queries:
// every operand pair of the universe (or U x B / B x U), every rule triple for (a, b, c), value and error parts.
#include "common.h"

enum { O_PLUS, O_MINUS, O_MULT, O_DIV, O_MOD, O_MAX, O_MIN, O_DISTMIN, O_EQ, O_NE, O_LT, O_LE, O_GT, O_GE, O_COUNT };
static const char* ONAME[O_COUNT] = {"PLUS","MINUS","MULTIPLY","DIVIDE","MODULO","MAXIMUM","MINIMUM","DIST_MIN","EQUAL","NOT_EQUAL","LESS_THAN","LESS_THAN_EQUAL","GREATER_THAN","GREATER_THAN_EQUAL"};
static binary_factory& fac(int o)
{
    switch (o) {
        case O_PLUS: return PLUS(); case O_MINUS: return MINUS(); case O_MULT: return MULTIPLY(); case O_DIV: return DIVIDE(); case O_MOD: return MODULO();
        case O_MAX: return MAXIMUM(); case O_MIN: return MINIMUM(); case O_DISTMIN: return DIST_MIN(); case O_EQ: return EQUAL(); case O_NE: return NOT_EQUAL();
        case O_LT: return LESS_THAN(); case O_LE: return LESS_THAN_EQUAL(); case O_GT: return GREATER_THAN(); default: return GREATER_THAN_EQUAL();
    }
}
// result: value, or NAN+code for "must raise": code 1 = DIVIDE_BY_ZERO, 2 = SUBTRACT_INFINITY, 3 = outside the documented domain (skipped)
static double scal(const Kind& k, int o, double a, double b, int& must)
{
    must = 0;
    const bool ai = a==INF, bi = b==INF;
    switch (o) {
        case O_PLUS: return (ai||bi) ? INF : a+b;
        case O_MINUS: if (bi) { must=2; return NAN; } return ai ? INF : a-b;
        case O_MULT: if (ai||bi) { if (k.isEVp()) { must=3; return NAN; } } return a*b;
        case O_DIV: if (bi || ai) { must=3; return NAN; } if (b==0) { must=1; return NAN; } if (k.range=='i') return (double)((long)a / (long)b); return a/b;
        case O_MOD: if (bi || ai) { must=3; return NAN; } if (b==0) { must=1; return NAN; } return (double)((long)a % (long)b);
        case O_MAX: return std::max(a,b);
        case O_MIN: return std::min(a,b);
        case O_DISTMIN: if (a<0 && b<0) return std::min(a,b); if (a<0) return b; if (b<0) return a; return std::min(a,b);
        case O_EQ: return a==b; case O_NE: return a!=b; case O_LT: return a<b; case O_LE: return a<=b; case O_GT: return a>b; default: return a>=b;
    }
}

static void list_units(const std::string& tier)
{
    bool th = tier=="thorough";
    // type tags: MTi, MTr, EVp (sets and relations), EVt (relations)
    for (const char* ty : {"MTi","MTr","EVpi"}) for (const char* rr : {"F","Q"}) {
        for (const char* sh : {"S1","S2"}) printf("sr=S,ty=%s,ra=%s,shape=%s,pairs=all\n", ty, rr, sh);
        if (th) { for (int i=0;i<2;i++) printf("sr=S,ty=%s,ra=%s,shape=S3,pairs=all,part=%d/2\n", ty, rr, i);
                  for (int i=0;i<6;i++) printf("sr=S,ty=%s,ra=%s,shape=S4,pairs=fam0,part=%d/6\n", ty, rr, i); }
        else { printf("sr=S,ty=%s,ra=%s,shape=S3,pairs=fam0\n", ty, rr); printf("sr=S,ty=%s,ra=%s,shape=S4,pairs=famfam0\n", ty, rr); }
        if (th) { printf("sr=S,ty=%s,ra=%s,shape=S6,pairs=famfam0\n", ty, rr); }
    }
    for (const char* ty : {"MTi","MTr","EVpi","EVtr"}) for (const char* rr : {"F","Q","I"}) {
        if (th) { for (int i=0;i<3;i++) printf("sr=R,ty=%s,ra=%s,shape=S1,pairs=all,part=%d/3\n", ty, rr, i); }
        else printf("sr=R,ty=%s,ra=%s,shape=S1,pairs=famfam0\n", ty, rr);
        if (th) printf("sr=R,ty=%s,ra=%s,shape=S2,pairs=famfam0\n", ty, rr);
    }
    // relations over two and three variables (universe not enumerable; operands built lazily from the 1-point family and from "event" functions)
    for (const char* ty : {"MTi","MTr","EVpi","EVtr"}) for (const char* rr : {"F","Q","I"}) {
        if (th || rr[0]=='I') printf("sr=R,ty=%s,ra=%s,shape=S3,pairs=famfam0,thin=%d\n", ty, rr, th?2:8);
        if (th || rr[0]=='I') printf("sr=R,ty=%s,ra=%s,shape=S6,pairs=evev,alt=2,thin=%d\n", ty, rr, th?1:4);
        if (th) printf("sr=R,ty=%s,ra=%s,shape=S6,pairs=famfam0,alt=2,thin=2\n", ty, rr);
    }
    if (th) for (const char* rr : {"F","Q"}) { printf("sr=S,ty=EVpi,ra=%s,shape=S3,pairs=all,alt=1\n", rr); printf("sr=S,ty=MTi,ra=%s,shape=S3,pairs=all,alt=1\n", rr); }
    // unary part
    for (const char* ty : {"MTi","MTr","EVpi"}) for (const char* sh : {"S1","S2","S3","S4"}) printf("mode=unary,sr=S,ty=%s,shape=%s\n", ty, sh);
    for (const char* ty : {"MTi","MTr","EVpi","EVtr"}) printf("mode=unary,sr=R,ty=%s,shape=S1\n", ty);
}

static Kind mk(bool rel, const std::string& ty, char rr) { Kind k = kind_parse(std::string(rel?"R:":"S:")+ty+":"+rr); return k; }

static std::vector<std::string> g_pat;
static std::string g_kind, g_shape;
static void fmt_case(char* buf, size_t n, const long* a)
{
    snprintf(buf,n,"%s kind=%s shape=%s forests(a,b,c)=%s a=f%lu b=f%lu variant=%ld (variant = result-kind + 2*alias; alias 1/2: the result edge is operand a/b, 3: both operands are one edge object; function number = base-|V| digits of the truth table, point 0 least significant)", ONAME[a[0]], g_kind.c_str(), g_shape.c_str(), g_pat[a[1]].c_str(), (unsigned long)a[2], (unsigned long)a[3], a[4]);
}

static void run_binary(const std::map<std::string,std::string>& spec)
{
    bool rel = spec_get(spec,"sr")=="R";
    std::string ty = spec_get(spec,"ty");
    Shape s = shape_by_name(spec_get(spec,"shape"));
    char ra = spec_get(spec,"ra")[0];
    std::string pairs = spec_get(spec,"pairs","all");
    int alt = (int)spec_int(spec,"alt",0);
    const unsigned long thin = (unsigned long)spec_int(spec,"thin",1);     // deterministic thinning of the operand pairs (1 = all)
    unsigned long part=0, nparts=1; { std::string ps = spec_get(spec,"part","0/1"); sscanf(ps.c_str(),"%lu/%lu",&part,&nparts); }   // partition of the first operand index across units
    auto mine = [&](unsigned long i) { return nparts<=1 || (i % nparts)==part; };
    const char* rules = rel ? "FQI" : "FQ";
    Kind ka = mk(rel,ty,ra);
    g_kind = ka.name(); g_shape = s.name;
    std::vector<double> V = alphabet_for(ka, s, alt);
    long P = s.points(rel);
    const bool big = (double)P*std::log2((double)V.size()) > 22.0;     // universe not enumerable: operands from families, built lazily
    unsigned long U = big ? 0 : ipow(V.size(),P);
    if (big && pairs!="famfam0" && pairs!="evev") { declined("shape %s: universe not enumerable, pairs=%s not supported", s.name.c_str(), pairs.c_str()); return; }

    lib_init();
    domain* d = make_domain(s);
    std::map<std::string,Universe*> objs;
    auto get_obj = [&](char r, int o)->Universe* {
        std::string key; key+=r; key+=char('0'+o);
        auto it = objs.find(key); if (it!=objs.end()) return it->second;
        Kind k = mk(rel,ty,r);
        forest* F = make_forest(d,k,Pol());
        Universe* u = new Universe();
        if (F) u->build(F,k,s,V); else u->F=nullptr;
        objs[key]=u; return u;
    };
    std::map<char,forest*> boolF;
    auto get_bool = [&](char r)->forest* { auto it=boolF.find(r); if (it!=boolF.end()) return it->second; Kind k; k.rel=rel; k.range='b'; k.lab='m'; k.rr=r; forest* F=make_forest(d,k,Pol()); boolF[r]=F; return F; };
    std::vector<unsigned long> fam = (pairs=="fam0"||pairs=="famfam0") ? structured_family(ka,s,V,1,false) : structured_family(ka,s,V,2,true);
    // evev: "event" functions (value V[1] on a single transition with identity elsewhere, V[0] elsewhere) x unions of two events; two-value alphabets only
    std::vector<unsigned long> ev1, ev2; if (pairs=="evev" && V.size()==2 && rel) { ev1 = event_masks(s,false); ev2 = event_masks(s,true); if (ev2.size()>400) { std::vector<unsigned long> t; for (size_t i=0;i<ev2.size();i+=ev2.size()/400+1) t.push_back(ev2[i]); ev2=t; } }
    ctx.counters["universe"]=(long)U; ctx.counters["family"]=(long)fam.size();

    for (const char* rb=rules; *rb; ++rb) for (const char* rc=rules; *rc; ++rc) for (int distinct=0; distinct<2; distinct++) {
        if (ctx.stop) break;
        // distinct=0: forests with the same rule are the same object; distinct=1: a, b, c all different objects (only when some rule repeats)
        if (distinct && !(*rb==ra || *rc==ra || *rc==*rb)) continue;
        int ob = (distinct && *rb==ra) ? 1 : 0;
        int oc = 0; if (distinct) { oc = 0; if (*rc==ra) oc=1; if (*rc==*rb && ob==oc) oc=ob+1; if (*rc==ra && *rc==*rb) oc=2; }
        Universe* A = get_obj(ra,0); Universe* B = get_obj(*rb,ob); Universe* C = get_obj(*rc,oc);
        if (!A->F || !B->F || !C->F) continue;
        char pn[32]; snprintf(pn,sizeof pn,"%c0,%c%d,%c%d",ra,*rb,ob,*rc,oc); g_pat.push_back(pn); long pi=(long)g_pat.size()-1;
        for (int o=0;o<O_COUNT && !ctx.stop;o++) {
            if (o==O_MOD && ka.range!='i') continue;
            bool cmp = o>=O_EQ;
            // comparisons: result in a boolean forest (rule rc) and in a forest of the operand type
            for (int resb=0; resb<(cmp?2:1); resb++) {
                forest* RF = (cmp && resb==0) ? get_bool(*rc) : C->F;
                Kind rk = C->k; if (cmp && resb==0) { rk.range='b'; rk.lab='m'; }
                if (!RF) continue;
                char nm[64]; snprintf(nm,sizeof nm,"%s[%s]",ONAME[o],rk.name().c_str());
                binary_operation* bop = get_bop(fac(o), A->F, B->F, RF, nm);
                if (!bop) continue;
                dd_edge r(RF);
                auto one = [&](unsigned long i, unsigned long j) {
                  Table ta, tb, want; int mustAny=0; bool skip=false; bool all00=true, allinfinf=true; bool prepared=false;
                  auto prep = [&]() { if (prepared) return; prepared=true; ta = A->table(i); tb = B->table(j); want.assign(P,0.0);
                    for (long p=0;p<P;p++) { int must; want[p]=scal(ka,o,ta[p],tb[p],must); if (must==3) skip=true; if (must==1||must==2) { mustAny=must; if (must==1 && ta[p]!=0) all00=false; if (must==2 && ta[p]!=INF) allinfinf=false; } } };
                  auto main_case = [&]() {
                    prep();
                    if (skip) { ctx.counters["skipped_outside_documented_domain"]++; return; }
                    bool threw=false; error::code tc = error::MISCELLANEOUS; const char* tn="";
                    try { bop->compute(A->get(i), B->get(j), r); } catch (MEDDLY::error e) { threw=true; tc=e.getCode(); tn=e.getName(); }
                    if (mustAny) {
                        ctx.counters["error_cases"]++;
                        const bool same = (A->F==B->F && i==j);
                        if (!threw) {
                            const char* cls = same ? "same-edge" : (mustAny==1 ? (all00 ? "only-0/0" : "other") : (allinfinf ? "only-inf-minus-inf" : "other"));
                            if (!strcmp(cls,"other") && mustAny==2 && rel && B->k.rr=='I') {
                                // subtrahend in an identity-reduced forest: is every offending +infinity (finite - infinity) at an off-diagonal
                                // position of some variable, i.e. possibly implied by an identity pattern rather than stored?
                                bool offdiag=true; int x[16], xp[16];
                                for (long p=0;p<P;p++) if (tb[p]==INF && ta[p]!=INF) { decode_rel(s,p,x,xp); bool od=false; for (int k2=1;k2<=s.K();k2++) if (x[k2]!=xp[k2]) od=true; if (!od) offdiag=false; }
                                if (offdiag) cls = "identity-implicit-inf";
                            }
                            char tag[64]; snprintf(tag,sizeof tag,"%s-not-raised:%s", mustAny==1?"divzero":"subinf", cls);
                            violation(tag, "operand tables a=[%s] b=[%s]: the operation returned a value instead of raising %s", tab_str(ta).c_str(), tab_str(tb).c_str(), mustAny==1?"DIVIDE_BY_ZERO":"SUBTRACT_INFINITY");
                        } else if ((mustAny==1 && tc!=error::DIVIDE_BY_ZERO) || (mustAny==2 && tc!=error::SUBTRACT_INFINITY)) {
                            violation("wrong-error-code","raised %s, documented error is %s", tn, mustAny==1?"DIVIDE_BY_ZERO":"SUBTRACT_INFINITY");
                        }
                        return;
                    }
                    if (threw) { violation("op-error","valid operands a=[%s] b=[%s] raised %s", tab_str(ta).c_str(), tab_str(tb).c_str(), tn); return; }
                    // values: canonical edge when the result universe holds the table, else double read-out
                    long ei = (RF==C->F) ? C->index_of(want) : -1;
                    if (ei>=0 && rk.range!='r') {
                        if (r != C->get(ei)) { Table x; read_eval(r,rk,s,x); violation(tab_eq(rk,x,want)?"noncanonical-result":"wrong-result","a=[%s] b=[%s]: result reads [%s], expected [%s]", tab_str(ta).c_str(), tab_str(tb).c_str(), tab_str(x).c_str(), tab_str(want).c_str()); }
                    } else {
                        std::string err = check_result(r,rk,s,want,rk.range!='r');
                        if (!err.empty()) violation(err.compare(0,12,"NONCANONICAL")==0?"noncanonical-result":"wrong-result","a=[%s] b=[%s]: %s", tab_str(ta).c_str(), tab_str(tb).c_str(), err.c_str());
                    }
                    if (!tab_is_const(want)) note_nontrivial(hmix(hmix(hmix(o*2+resb,pi), i), j));
                  };
                  if (case_lazy(fmt_case, o, pi, (long)i, (long)j, resb)) main_case();
                  // in-place use: the result edge is one of the operand edges (1: a, 2: b), or both operands are the same edge object (3).
                  // Every sub-case takes a case number whether or not it is executed.
                  for (int al=1; al<=3; al++) {
                    const bool applicable = (al==1 && RF==A->F) || (al==2 && RF==B->F) || (al==3 && A->F==B->F && i==j);
                    if (!applicable) continue;
                    if (!case_lazy(fmt_case, o, pi, (long)i, (long)j, resb+2*al)) continue;
                    prep();
                    if (skip || mustAny) continue;
                    dd_edge t(RF);
                    try {
                        if (al==1) { t = A->get(i); bop->compute(t, B->get(j), t); }
                        else if (al==2) { t = B->get(j); bop->compute(A->get(i), t, t); }
                        else { const dd_edge& x = A->get(i); bop->compute(x, x, t); }
                        std::string err = check_result(t,rk,s,want,rk.range!='r');
                        if (!err.empty()) violation("wrong-result-alias","a=[%s] b=[%s], %s: %s", tab_str(ta).c_str(), tab_str(tb).c_str(), al==1?"result edge is operand a":al==2?"result edge is operand b":"both operands are the same edge object", err.c_str());
                    } catch (MEDDLY::error e) { violation("op-error","valid operands (in-place use %d) raised %s", al, e.getName()); }
                  }
                };
                if (pairs=="all") { for (unsigned long i=0;i<U && !ctx.stop;i++) { if (!mine(i)) continue; for (unsigned long j=0;j<U;j++) one(i,j); if (ctx.viol>ctx.maxviol && ctx.only<0 && ctx.upto<0) ctx.stop=true; } }
                else if (pairs=="evev") { for (unsigned long i : ev1) { if (ctx.stop) break; for (unsigned long j : ev2) { if (thin>1 && hmix(i,j)%thin) continue; one(i,j); one(j,i); } if (ctx.viol>ctx.maxviol && ctx.only<0 && ctx.upto<0) ctx.stop=true; } }
                else if (pairs=="famfam0") { for (unsigned long i : fam) { if (ctx.stop) break; for (unsigned long j : fam) { if (thin>1 && i!=j && hmix(i,j)%thin) continue; one(i,j); } if (ctx.viol>ctx.maxviol && ctx.only<0 && ctx.upto<0) ctx.stop=true; } }
                else {
                    for (unsigned long i=0;i<U && !ctx.stop;i++) { if (!mine(i)) continue; for (unsigned long j : fam) one(i,j); if (ctx.viol>ctx.maxviol && ctx.only<0 && ctx.upto<0) ctx.stop=true; }
                    for (unsigned long i : fam) { if (ctx.stop) break; for (unsigned long j=0;j<U;j++) { if (!mine(j)) continue; one(i,j); } if (ctx.viol>ctx.maxviol && ctx.only<0 && ctx.upto<0) ctx.stop=true; }
                }
                r.detach();
                // forests stay canonical after the sweep (incl. after error paths: references may leak there, never be over-released)
                AuditOpts ao; ao.refcounts=false; ao.refcounts_atleast=true;
                for (Universe* u : {A,B,C}) { std::string a = audit_forest(u->F,u->k,ao); if (!a.empty()) { violation("audit","after %s sweep forests %s: %s", ONAME[o], pn, a.c_str()); ctx.stop=true; break; } }
            }
        }
    }
    for (auto& kv : objs) if (kv.second->F) { std::string e = kv.second->recheck(); if (!e.empty()) { snprintf(ctx.cur,sizeof ctx.cur,"re-read universe of forest object %s",kv.first.c_str()); lz_fn_reset(); violation("operand-changed","%s",e.c_str()); } }
    for (auto& kv : objs) kv.second->clear();
    domain::destroy(d);
    lib_done();
}

// ---- unary part: DIST_INC, user-defined maps, MAX_RANGE / MIN_RANGE ----
static void u_neg(const rangeval& x, rangeval& y) { if (x.isPlusInfinity()) { y=x; return; } if (x.isInteger()) y = -long(x); else y = -double(x); }
static void u_inc(const rangeval& x, rangeval& y) { if (x.isPlusInfinity()) { y=x; return; } if (x.isInteger()) { long v=x; y = v>=0 ? v+1 : 0L; } else { double v=x; y = v>=0 ? v+1 : 0.0; } }
static void u_sq(const rangeval& x, rangeval& y) { if (x.isPlusInfinity()) { y=x; return; } if (x.isInteger()) { long v=x; y = v*v; } else { double v=x; y = v*v; } }
static user_unary_factory F_neg("VNeg", u_neg), F_inc("VInc", u_inc), F_sq("VSquare", u_sq);

static void fmt_un(char* buf, size_t n, const long* a) { snprintf(buf,n,"%s kind=%s shape=%s rules %c->%c a=f%ld", (const char*)a[0], g_kind.c_str(), g_shape.c_str(), (char)a[1], (char)a[2], a[3]); }

static void run_unary(const std::map<std::string,std::string>& spec)
{
    bool rel = spec_get(spec,"sr")=="R";
    std::string ty = spec_get(spec,"ty");
    Shape s = shape_by_name(spec_get(spec,"shape"));
    const char* rules = rel ? "FQI" : "FQ";
    Kind k0 = mk(rel,ty,'F'); g_kind=k0.name(); g_shape=s.name;
    std::vector<double> V = alphabet(k0);
    long P = s.points(rel); unsigned long U = ipow(V.size(),P);
    if (U > 65536) { U = 65536; }
    lib_init();
    domain* d = make_domain(s);
    std::map<char,Universe*> objs;
    for (const char* r=rules; *r; ++r) { Kind k=mk(rel,ty,*r); forest* F=make_forest(d,k,Pol()); Universe* u=new Universe(); if (F) u->build(F,k,s,V); objs[*r]=u; }
    for (const char* ra=rules; *ra; ++ra) {
        Universe* A = objs[*ra]; if (!A->F) continue;
        // range queries
        for (unsigned long i=0;i<A->U;i++) {
            Table t = A->table(i);
            double mx=-INF, mn=INF; for (double v : t) { mx=std::max(mx,v); mn=std::min(mn,v); }
            for (int which=0; which<2; which++) {
                if (!case_lazy(fmt_un, (long)(which?"MIN_RANGE":"MAX_RANGE"), *ra, '-', (long)i)) continue;
                double want = which ? mn : mx;
                try {
                    if (k0.range=='i') { long res=0; apply(which?MIN_RANGE:MAX_RANGE, A->get(i), res); if (want==INF) { ctx.counters["range_infinite_result_not_compared"]++; } else if ((double)res!=want) violation("wrong-range","table [%s]: %s returned %ld, expected %g", tab_str(t).c_str(), which?"MIN_RANGE":"MAX_RANGE", res, want); }
                    else { double res=0; apply(which?MIN_RANGE:MAX_RANGE, A->get(i), res); if (!val_eq(k0,res,want)) violation("wrong-range","table [%s]: %s returned %g, expected %g", tab_str(t).c_str(), which?"MIN_RANGE":"MAX_RANGE", res, want); }
                    if (!tab_is_const(t)) note_nontrivial(hmix(which+100, hmix(*ra,i)));
                } catch (MEDDLY::error e) { if (e.getCode()==error::NOT_IMPLEMENTED || e.getCode()==error::TYPE_MISMATCH) { char b[96]; snprintf(b,sizeof b,"%s on %s: %s", which?"MIN_RANGE":"MAX_RANGE", A->k.name().c_str(), e.getName()); if (declined_once.insert(b).second) declined("%s",b); } else violation("op-error","range query threw %s (%s:%u)", e.getName(), e.getFile(), e.getLine()); }
            }
        }
        for (const char* rc=rules; *rc; ++rc) {
            Universe* C = objs[*rc]; if (!C->F) continue;
            struct UO { const char* nm; unary_operation* op; int id; };
            std::vector<UO> uops;
            if (k0.isMT() && k0.range=='i') uops.push_back({"DIST_INC", get_uop(DIST_INC(),A->F,C->F,"DIST_INC"), 0});
            uops.push_back({"user:negate", get_uop(F_neg,A->F,C->F,"user-negate"), 1});
            uops.push_back({"user:x>=0?x+1:0", get_uop(F_inc,A->F,C->F,"user-inc"), 2});
            uops.push_back({"user:square", get_uop(F_sq,A->F,C->F,"user-square"), 3});
            for (auto& uo : uops) {
                if (!uo.op) continue;
                dd_edge r(C->F);
                for (unsigned long i=0;i<A->U;i++) {
                    if (!case_lazy(fmt_un, (long)uo.nm, *ra, *rc, (long)i)) continue;
                    Table t=A->table(i), want(P); bool skip=false;
                    for (long p=0;p<P;p++) { double v=t[p]; switch (uo.id) { case 0: want[p]= v>=0 ? v+1 : v; break; case 1: want[p]= v==INF?INF:-v; break; case 2: want[p]= v==INF?INF:(v>=0?v+1:0); break; default: want[p]= v==INF?INF:v*v; } if (k0.isEVp() && want[p]<0 && false) skip=true; }
                    if (skip) continue;
                    try { uo.op->compute(A->get(i), r); std::string err = check_result(r,C->k,s,want,C->k.range!='r');
                        if (!err.empty()) {
                            const char* tag = err.compare(0,12,"NONCANONICAL")==0?"noncanonical-result":"wrong-result";
                            if (uo.id==0 && A->k.rr=='I') {
                                // semantic class of the known finding: identity-reduced source, and the result differs from the expectation
                                // only where the source value is 0 and the result is still 0 (zeros implied by identity patterns are not incremented)
                                Table got; read_eval(r,C->k,s,got); bool only=true; for (long p=0;p<P;p++) if (!(got[p]==want[p] || (t[p]==0 && got[p]==0))) only=false;
                                if (only) tag = "distinc-identity-implicit-zero";
                            }
                            violation(tag,"table [%s]: %s", tab_str(t).c_str(), err.c_str());
                        } }
                    catch (MEDDLY::error e) { violation("op-error","threw %s (%s:%u)", e.getName(), e.getFile(), e.getLine()); }
                    if (!tab_is_const(t)) note_nontrivial(hmix(uo.id, hmix(*ra*7+*rc,i)));
                    if (ctx.viol>ctx.maxviol && ctx.only<0 && ctx.upto<0) break;
                }
                r.detach();
            }
            std::string a = audit_forest(C->F,C->k); if (!a.empty()) violation("audit","%s",a.c_str());
        }
    }
    for (auto& kv : objs) if (kv.second->F) { std::string e = kv.second->recheck(); if (!e.empty()) violation("operand-changed","%s",e.c_str()); kv.second->clear(); }
    domain::destroy(d);
    lib_done();
}

static void run_unit(const std::map<std::string,std::string>& spec) { if (spec_get(spec,"mode")=="unary") run_unary(spec); else run_binary(spec); }
int main(int argc, char** argv) { return std_main(argc, argv, list_units, run_unit); }
