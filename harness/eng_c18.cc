// C18 memory managers: every request/recycle sequence up to a depth bound on a bare manager of each style,
// checked against an interval/sentinel allocator model after every call.
#include "common.h"
#include "memory.h"

struct Chunk { node_address h; size_t n; size_t req; unsigned long id; };

static const memory_manager_style* style_of(const std::string& s)
{
    if (s=="ORIGINAL_GRID") return ORIGINAL_GRID;
    if (s=="ARRAY_PLUS_GRID") return ARRAY_PLUS_GRID;
    if (s=="HEAP_MANAGER") return HEAP_MANAGER;
    if (s=="MALLOC_MANAGER") return MALLOC_MANAGER;
    return FREELISTS;
}

static void list_units(const std::string& tier0)
{
    std::string tier = tier0, variant = "rel";
    size_t c = tier.find(':'); if (c!=std::string::npos) { variant = tier.substr(c+1); tier = tier.substr(0,c); }
    bool th = tier=="thorough", asan = variant=="asan";
    for (const char* st : {"ORIGINAL_GRID","ARRAY_PLUS_GRID","HEAP_MANAGER","MALLOC_MANAGER","FREELISTS"}) for (int g : {4,8,2}) {
        bool fl = !strcmp(st,"FREELISTS");
        int depth = th ? (asan ? 6 : 7) : (asan ? 5 : 6);
        // sizes straddle ARRAY_PLUS_GRID's small/medium/large classes (1-3 / 4-5 / >=6), HEAP's smallest tracked chunk (5),
        // and include a request larger than all earlier ones (huge-hole list); FREELISTS: up to its maximum entry size 15
        const char* sizes = fl ? (th ? "1.2.3.5.8.15" : "1.2.3.8.15") : (th ? "2.3.4.5.6.7.9.16.40" : "2.4.5.6.9.40");
        // split by first symbol for parallelism
        int nsz = 1; for (const char* p=sizes; *p; ++p) if (*p=='.') ++nsz;
        for (int first=0; first<nsz; first++)
            printf("style=%s,gran=%d,depth=%d,sizes=%s,first=%d,maxlive=%d\n", st, g, depth, sizes, first, th?5:4);
    }
    // narrow menus, deeper: two small sizes + one large request (which also raises max_request so merged holes stay in the grid)
    for (const char* st : {"ORIGINAL_GRID","ARRAY_PLUS_GRID","HEAP_MANAGER","MALLOC_MANAGER","FREELISTS"}) for (int g : {4,8}) {
        bool fl = !strcmp(st,"FREELISTS");
        std::vector<int> small = fl ? std::vector<int>{1,2,3,8} : std::vector<int>{2,4,5,6,9};
        int big = fl ? 15 : 40;
        int depth = th ? (asan ? 8 : 9) : (asan ? 7 : 8);
        for (size_t i=0;i<small.size();i++) for (size_t j=i;j<small.size();j++) {
            if (asan && ((i+j)&1)) continue;
            if (i==j) printf("style=%s,gran=%d,depth=%d,sizes=%d.%d,first=-1,maxlive=4\n", st, g, depth, small[i], big);
            else printf("style=%s,gran=%d,depth=%d,sizes=%d.%d.%d,first=-1,maxlive=4\n", st, g, depth, small[i], small[j], big);
        }
    }
    printf("mode=refusal\n");
}

struct Scen {
    const memory_manager_style* style; std::string sname; int gran; std::vector<size_t> sizes; int maxlive; int depth;
};

// pattern of slot j of the chunk at handle h with n slots (a function of (h,n,j) only, so it is the same on every execution)
static inline unsigned long pat(node_address h, size_t n, size_t j, int gran, bool clrFirst, bool clrLast)
{
    unsigned long v = (unsigned long)h * 2654435761UL + n * 40503UL + j * 2246822519UL + 0x5bd1e995UL;
    unsigned bits = gran*8;
    unsigned long mask = bits==64 ? ~0UL : ((1UL<<bits)-1);
    unsigned long msb = 1UL<<(bits-1);
    v &= mask;
    if (j & 1) v |= msb; else v &= ~msb;                 // interior slots deliberately carry the MSB on odd positions
    if (j==0 && clrFirst) v &= ~msb;
    if (j==n-1 && clrLast) v &= ~msb;
    if (j==0 && !clrFirst) v |= msb;                      // where the contract allows it, use the MSB in slot 0 too
    return v;
}
static void wr(void* base, size_t j, int gran, unsigned long v) { memcpy((char*)base + j*gran, &v, gran); }
static unsigned long rd(const void* base, size_t j, int gran) { unsigned long v=0; memcpy(&v, (const char*)base + j*gran, gran); return v; }

// Executes one sequence; sym < nsz : request(sizes[sym]); else recycle(live[sym-nsz]).  Returns false on violation.
static bool exec_seq(const Scen& S, const std::vector<int>& seq, unsigned long* outcome)
{
    memstats stats;
    memory_manager* M = S.style->initManager((unsigned char)S.gran, 1, stats);
    if (!M) { char b[96]; snprintf(b,sizeof b,"%s granularity %d: initManager returned null", S.sname.c_str(), S.gran); if (declined_once.insert(b).second) declined("%s", b); return true; }
    const bool cf = M->firstSlotMustClearMSB(), cl = M->lastSlotMustClearMSB();
    std::vector<Chunk> live;
    const int nsz = (int)S.sizes.size();
    bool ok = true;
    unsigned long oc = 17;
    auto verify_all = [&](const char* after)->bool {
        // (1) pairwise disjoint byte intervals, (2) contents intact
        for (size_t a=0;a<live.size();a++) {
            const char* pa = (const char*)M->getChunkAddress(live[a].h);
            for (size_t b=a+1;b<live.size();b++) {
                const char* pb = (const char*)M->getChunkAddress(live[b].h);
                if (pa < pb + live[b].n*S.gran && pb < pa + live[a].n*S.gran) {
                    violation("overlap","after %s: live chunk handle %lu (%zu slots) overlaps live chunk handle %lu (%zu slots)", after, (unsigned long)live[a].h, live[a].n, (unsigned long)live[b].h, live[b].n);
                    return false;
                }
            }
            for (size_t j=0;j<live[a].n;j++) {
                unsigned long want = pat(live[a].h, live[a].n, j, S.gran, cf, cl);
                unsigned long got = rd(pa, j, S.gran);
                if (got != want) { violation("corrupted","after %s: slot %zu of live chunk handle %lu (%zu slots) changed from 0x%lx to 0x%lx", after, j, (unsigned long)live[a].h, live[a].n, want, got); return false; }
            }
        }
        return true;
    };
    char what[64];
    for (int round=0; round<2 && ok; round++) {
        // round 1 repeats the same sequence after everything was recycled: memory must be reusable
        for (size_t step=0; step<seq.size() && ok; step++) {
            int sym = seq[step];
            ++ctx.transitions;
            try {
                if (sym < nsz) {
                    size_t n = S.sizes[sym];
                    node_address h = M->requestChunk(n);
                    snprintf(what,sizeof what,"round %d step %zu request(%zu)", round, step, S.sizes[sym]);
                    if (h==0 || n==0) { violation("request-failed","%s returned handle %lu with %zu slots", what, (unsigned long)h, n); ok=false; break; }
                    if (n < S.sizes[sym]) { violation("short-chunk","%s returned only %zu slots", what, n); ok=false; break; }
                    if (!M->isValidHandle(h)) { violation("invalid-handle","%s returned handle %lu that isValidHandle() rejects", what, (unsigned long)h); ok=false; break; }
                    Chunk c{h,n,S.sizes[sym],0};
                    char* p = (char*)M->getChunkAddress(h);
                    for (size_t j=0;j<n;j++) wr(p, j, S.gran, pat(h,n,j,S.gran,cf,cl));     // touches every byte (ASan: must be addressable)
                    live.push_back(c);
                    oc = hmix(oc, (unsigned long)h*64+n);
                } else {
                    int j = sym-nsz;
                    Chunk c = live[j];
                    snprintf(what,sizeof what,"round %d step %zu recycle(handle %lu, %zu slots)", round, step, (unsigned long)c.h, c.n);
                    live.erase(live.begin()+j);
                    M->recycleChunk(c.h, c.n);
                }
            } catch (MEDDLY::error e) { violation("mm-error","%s threw %s (%s:%u)", what, e.getName(), e.getFile(), e.getLine()); ok=false; break; }
            if (!verify_all(what)) { ok=false; break; }
        }
        // recycle the rest (oldest first in round 0, newest first in round 1)
        while (ok && !live.empty()) {
            size_t j = round==0 ? 0 : live.size()-1;
            Chunk c = live[j]; live.erase(live.begin()+j);
            try { M->recycleChunk(c.h, c.n); } catch (MEDDLY::error e) { violation("mm-error","final recycle threw %s", e.getName()); ok=false; break; }
            if (!verify_all("final recycle")) { ok=false; break; }
        }
    }
    if (outcome) *outcome = oc;
    if (!M->mustRecycleManually() || live.empty()) delete M;
    return ok;
}

static std::string seq_str(const Scen& S, const std::vector<int>& seq)
{
    std::string s; char b[32];
    for (int y : seq) { if (y<(int)S.sizes.size()) snprintf(b,sizeof b,"req(%zu) ",S.sizes[y]); else snprintf(b,sizeof b,"rec(#%d) ", y-(int)S.sizes.size()); s+=b; }
    return s;
}

static void run_unit(const std::map<std::string,std::string>& spec)
{
    lib_init();
    if (spec_get(spec,"mode")=="refusal") {
        // documented refusals must be clean (error or null), never a crash / wrong chunk
        for (int g : {4,8}) {
            if (!case_begin("FREELISTS granularity %d: request(16) exceeds the stated maximum entry size 15", g)) continue;
            memstats st; memory_manager* M = FREELISTS->initManager((unsigned char)g,1,st);
            if (!M) continue;
            size_t n=16; node_address h=0; bool threw=false;
            try { h = M->requestChunk(n); } catch (MEDDLY::error e) { threw=true; }
            if (!threw && h!=0 && n<16) violation("short-chunk","request(16) returned %zu slots", n);
            note_nontrivial(g);
            delete M;
        }
        for (const char* st : {"ORIGINAL_GRID","ARRAY_PLUS_GRID","HEAP_MANAGER","MALLOC_MANAGER","FREELISTS"}) for (int g : {1,3,16}) {
            if (!case_begin("%s unsupported granularity %d", st, g)) continue;
            memstats ms; memory_manager* M = nullptr;
            try { M = style_of(st)->initManager((unsigned char)g,1,ms); } catch (MEDDLY::error e) { M=nullptr; }
            if (M) { size_t n=4; node_address h = M->requestChunk(n); if (h && n>=4) { memset(M->getChunkAddress(h), 0, n*g); M->recycleChunk(h,n); } delete M; }
        }
        lib_done(); return;
    }
    Scen S;
    S.sname = spec_get(spec,"style"); S.style = style_of(S.sname); S.gran = (int)spec_int(spec,"gran",4);
    S.maxlive = (int)spec_int(spec,"maxlive",4); S.depth = (int)spec_int(spec,"depth",5);
    { std::string z = spec_get(spec,"sizes"); size_t i=0; while (i<z.size()) { size_t j=z.find('.',i); if (j==std::string::npos) j=z.size(); S.sizes.push_back((size_t)atol(z.substr(i,j-i).c_str())); i=j+1; } }
    int first = (int)spec_int(spec,"first",0);
    const int nsz = (int)S.sizes.size();
    ctx.counters["alphabet"] = nsz + S.maxlive;
    ctx.counters["depth"] = S.depth;

    // all enabled sequences of length exactly `depth` whose first symbol is request(sizes[first]) (every prefix is checked on the way);
    // shorter sequences are prefixes of these
    std::vector<int> seq; std::vector<int> livecnt;
    if (first>=0) { seq.push_back(first); livecnt.push_back(1); } else livecnt.push_back(0);
    // iterative DFS over leaves
    std::function<void()> rec = [&]() {
        if (ctx.stop) return;
        if ((int)seq.size()==S.depth) {
            if (ctx.only<0 && ctx.upto<0 && ctx.viol>ctx.maxviol) { ctx.stop=true; return; }
            std::string ss = seq_str(S,seq);
            if (case_begin("%s granularity %d : %s", S.sname.c_str(), S.gran, ss.c_str())) {
                unsigned long oc=0;
                exec_seq(S, seq, &oc);
                note_outcome(oc);
                note_nontrivial(hstr(ss));
            }
            return;
        }
        int lc = livecnt.back();
        for (int y=0; y<nsz+S.maxlive; y++) {
            if (y<nsz) { if (lc>=S.maxlive) continue; seq.push_back(y); livecnt.push_back(lc+1); }
            else { if (y-nsz >= lc) continue; seq.push_back(y); livecnt.push_back(lc-1); }
            rec();
            seq.pop_back(); livecnt.pop_back();
        }
    };
    rec();
    lib_done();
}
int main(int argc, char** argv) { return std_main(argc, argv, list_units, run_unit); }
