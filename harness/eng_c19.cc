// C19 terminal / edge-value encoding: exhaustive loops over the whole value spaces + forest-level boundary sets.
#include "common.h"
#include <climits>

static void list_units(const std::string& tier)
{
    bool th = tier=="thorough";
    if (th) {
        // all integers in [intMin, intMax] = 2^31 values in 32 chunks; all 2^32 float patterns in 64 chunks
        for (int c=0;c<32;c++) printf("mode=int,lo=%ld,hi=%ld\n", -1073741824L + c*(1L<<26), -1073741824L + (c+1)*(1L<<26));
        for (int c=0;c<64;c++) printf("mode=float,lo=%lu,hi=%lu,stride=1\n", (unsigned long)c<<26, (unsigned long)(c+1)<<26);
    } else {
        // boundary regions +-2^20 around intMin, -1/0/1, intMax; and a fixed-stride sweep of the rest
        printf("mode=int,lo=-1073741824,hi=-1072693248\n");
        printf("mode=int,lo=-1048576,hi=1048576\n");
        printf("mode=int,lo=1072693248,hi=1073741824\n");
        for (int c=0;c<8;c++) printf("mode=int,lo=%ld,hi=%ld,stride=257\n", -1073741824L + c*(1L<<28), -1073741824L + (c+1)*(1L<<28));
        // floats: every pattern whose exponent is 0,1,127,128,254,255 (both signs); stride-257 sweep of everything
        for (unsigned long sgn=0; sgn<2; sgn++) for (unsigned long ex : {0UL,1UL,127UL,128UL,254UL,255UL})
            printf("mode=float,lo=%lu,hi=%lu,stride=1\n", (sgn<<31)|(ex<<23), ((sgn<<31)|(ex<<23)) + (1UL<<23));
        for (int c=0;c<8;c++) printf("mode=float,lo=%lu,hi=%lu,stride=257\n", (unsigned long)c<<29, (unsigned long)(c+1)<<29);
    }
    printf("mode=outofrange\n");
    printf("mode=forest\n");
}

static long blk_lo, blk_hi; static const char* blk_what;
static void fmt_blk(char* buf, size_t n, const long* a) { snprintf(buf,n,"%s block [%ld, %ld) stride %ld", (const char*)a[0], a[1], a[2], a[3]); }

static void run_int(long lo, long hi, long stride)
{
    const long BLK = 1L<<20;
    for (long b=lo; b<hi; b+=BLK) {
        long be = std::min(hi, b+BLK);
        if (!case_lazy(fmt_blk, (long)"integer terminals", b, be, stride)) continue;
        node_handle prev_h = 1; long prev_v = 0; bool have_prev=false;
        long n=0;
        for (long v=b; v<be; v+=stride) {
            ++n;
            node_handle h, h2;
            try {
                terminal t(v, terminal_type::INTEGER); h = t.getHandle();
                terminal t2(v); h2 = t2.getHandle();
            } catch (MEDDLY::error e) { violation("int-encode-threw","encoding in-range integer %ld threw %s", v, e.getName()); break; }
            if (h != h2) { violation("int-ctor-mismatch","terminal(long) and terminal(long,INTEGER) give different handles for %ld", v); break; }
            if (h > 0) { violation("int-handle-positive","integer %ld encodes to positive handle %d (collides with node handles)", v, (int)h); break; }
            if ((h==0) != (v==0)) { violation("int-zero-handle","integer %ld encodes to handle %d: 0 must be the unique transparent handle", v, (int)h); break; }
            terminal back(terminal_type::INTEGER, h);
            if (back.getInteger() != v) { violation("int-roundtrip","integer %ld encodes to handle %d which decodes to %ld", v, (int)h, back.getInteger()); break; }
            if (have_prev && h==prev_h) { violation("int-collision","integers %ld and %ld share handle %d", prev_v, v, (int)h); break; }
            if ((int)v == v) { terminal t3((int)v); if (t3.getHandle()!=h) { violation("int-ctor-mismatch","terminal(int) differs for %ld", v); break; } }
            prev_h=h; prev_v=v; have_prev=true;
        }
        ctx.evals += n-1; ctx.nontrivial += n;
    }
}

static inline float f_of(unsigned bits) { float f; memcpy(&f,&bits,4); return f; }
static inline unsigned b_of(float f) { unsigned b; memcpy(&b,&f,4); return b; }

static void run_float(unsigned long lo, unsigned long hi, unsigned long stride)
{
    const unsigned long BLK = 1UL<<20;
    for (unsigned long b=lo; b<hi; b+=BLK) {
        unsigned long be = std::min(hi, b+BLK);
        if (!case_lazy(fmt_blk, (long)"float bit patterns", (long)b, (long)be, (long)stride)) continue;
        long n=0, nans=0;
        node_handle prev_h=1; unsigned prev_bits=0; bool have_prev=false;
        for (unsigned long bb=b; bb<be; bb+=stride) {
            unsigned bits=(unsigned)bb;
            float f = f_of(bits);
            if (f!=f) { ++nans; have_prev=false; continue; }
            ++n;
            terminal t(f); node_handle h = t.getHandle();
            terminal td((double)f); node_handle hd = td.getHandle();
            terminal tt(f, terminal_type::REAL); node_handle ht = tt.getHandle();
            if (h!=hd || h!=ht) { violation("real-ctor-mismatch","pattern 0x%08x (%g): float/double/typed constructors give handles %d %d %d", bits, f, (int)h,(int)hd,(int)ht); break; }
            if (h > 0) { violation("real-handle-positive","pattern 0x%08x (%g) encodes to positive handle %d", bits, f, (int)h); break; }
            float want = f_of(bits & ~1u);     // documented accuracy: single precision minus one bit
            terminal back(terminal_type::REAL, h);
            float got = (float)back.getReal();
            if (!(got == want)) { violation("real-roundtrip","pattern 0x%08x (%.9g) -> handle 0x%08x -> %.9g, expected %.9g (lsb cleared)", bits, f, (unsigned)h, got, want); break; }
            if (f==0.0f && h!=0) { violation("real-zero-handle","zero value (pattern 0x%08x) encodes to the non-transparent handle 0x%08x", bits, (unsigned)h); break; }
            if (h==0 && got!=0.0f) { violation("real-zero-handle","pattern 0x%08x (%g) encodes to the transparent handle 0 but is not zero", bits, f); break; }
            if (have_prev) {
                float pw = f_of(prev_bits & ~1u);
                if (!(pw==want) && h==prev_h) { violation("real-collision","patterns 0x%08x and 0x%08x are distinct after rounding (%.9g, %.9g) but share handle 0x%08x", prev_bits, bits, pw, want, (unsigned)h); break; }
            }
            prev_h=h; prev_bits=bits; have_prev=true;
        }
        ctx.evals += n-1; ctx.nontrivial += n; ctx.counters["nan_patterns_skipped"] += nans;
    }
}

static void run_outofrange()
{
    std::vector<long> vals;
    for (long d=1; d<=1024; d++) { vals.push_back(1073741823L + d); vals.push_back(-1073741824L - d); }
    for (long v : {1L<<31, -(1L<<31), (1L<<31)-1, -(1L<<31)-1, 1L<<32, -(1L<<32), 1L<<40, -(1L<<40), (1L<<62), LONG_MAX, LONG_MIN, LONG_MAX-1, LONG_MIN+1, 3221225472L, -3221225472L, 2147483648L+1073741824L+5}) vals.push_back(v);
    for (long v : vals) {
        if (!case_begin("out-of-range integer terminal %ld", v)) continue;
        note_nontrivial((unsigned long)v);
        bool threw=false; node_handle h=1;
        try { terminal t(v, terminal_type::INTEGER); h = t.getHandle(); }
        catch (MEDDLY::error e) { threw=true; if (e.getCode()!=error::VALUE_OVERFLOW) violation("overflow-wrong-code","integer %ld outside the terminal range raised %s instead of VALUE_OVERFLOW", v, e.getName()); }
        if (!threw) violation("overflow-accepted","integer %ld outside [%d,%d] was encoded (handle 0x%08x) instead of raising VALUE_OVERFLOW", v, (int)terminal::intMin(), (int)terminal::intMax(), (unsigned)h);
    }
    // the extremes themselves are accepted
    for (long v : {1073741823L, -1073741824L}) {
        if (!case_begin("extreme in-range integer terminal %ld", v)) continue;
        try { terminal t(v, terminal_type::INTEGER); node_handle h=t.getHandle(); terminal b(terminal_type::INTEGER,h); if (b.getInteger()!=v) violation("int-roundtrip","extreme %ld decodes to %ld", v, b.getInteger()); }
        catch (MEDDLY::error e) { violation("int-encode-threw","extreme in-range value %ld rejected with %s", v, e.getName()); }
    }
}

// forest-level interface on boundary sets
static std::vector<long> int_boundary()
{
    std::set<long> s;
    for (int e=0;e<=30;e++) for (long d=-1; d<=1; d++) { long v=(1L<<e)+d; if (v<=1073741823L) s.insert(v); if (-v>=-1073741824L) s.insert(-v); }
    for (long v=-64; v<=64; v++) s.insert(v);
    s.insert(1073741823L); s.insert(-1073741824L);
    return std::vector<long>(s.begin(), s.end());
}
static std::vector<float> real_boundary()
{
    std::set<unsigned> s;
    for (unsigned ex=0; ex<=254; ex++) for (unsigned m : {0u,2u,4u,0x400000u,0x7ffffeu,0x7ffffcu}) for (unsigned sg : {0u,1u}) s.insert((sg<<31)|(ex<<23)|m);
    std::vector<float> v; for (unsigned b : s) v.push_back(f_of(b));
    return v;
}

static void run_forest()
{
    lib_init();
    Shape s = shape_by_name("S1");
    domain* d = make_domain(s);
    for (bool rel : {false,true}) for (char rr : {'F','Q'}) {
        // MT integer
        { Kind k; k.rel=rel; k.range='i'; k.lab='m'; k.rr=rr; forest* F=make_forest(d,k,Pol());
          if (F) for (long v : int_boundary()) {
            if (!case_begin("forest-level MT integer %s value %ld", k.name().c_str(), v)) continue;
            note_nontrivial(hmix(rel*2+rr, (unsigned long)v));
            try {
                node_handle h = F->handleForValue(v); long b; F->getValueFromHandle(h,b);
                if (b!=v) violation("forest-int-roundtrip","handleForValue/getValueFromHandle: %ld -> %ld", v, b);
                edge_value ev; node_handle p; F->getEdgeForValue(rangeval(v), ev, p); rangeval rv; F->getValueForEdge(ev,p,rv);
                if (long(rv)!=v) violation("forest-int-roundtrip","getEdgeForValue/getValueForEdge: %ld -> %ld", v, long(rv));
                if (p!=h) violation("forest-int-roundtrip","getEdgeForValue and handleForValue disagree for %ld", v);
                dd_edge c(F); F->createConstant(rangeval(v), c);
                Table t; read_eval(c,k,s,t); for (double x : t) if (x!=(double)v) { violation("forest-int-constant","createConstant(%ld) evaluates to %g", v, x); break; }
                // as a child of a stored node: [v, 0 ...]
                Table tt(s.points(rel), 0.0); tt[0]=(double)v; dd_edge e(F); Builder B(F,k,s); B.build(tt,e);
                std::string err = check_edge(e,k,s,tt); if (!err.empty()) violation("forest-int-node","value %ld stored below a node: %s", v, err.c_str());
            } catch (MEDDLY::error e) { violation("forest-error","in-range value %ld raised %s (%s:%u)", v, e.getName(), e.getFile(), e.getLine()); }
          }
          if (F) for (long v : {1073741824L, -1073741825L, 1L<<31, 1L<<40, -(1L<<40)}) {
            if (!case_begin("forest-level MT integer %s out-of-range value %ld", k.name().c_str(), v)) continue;
            bool threw=false;
            try { dd_edge c(F); F->createConstant(rangeval(v), c); } catch (MEDDLY::error e) { threw=true; if (e.getCode()!=error::VALUE_OVERFLOW) violation("overflow-wrong-code","createConstant(%ld) raised %s", v, e.getName()); }
            if (!threw) violation("overflow-accepted","createConstant(%ld) accepted a value outside the terminal range", v);
          }
        }
        // MT real
        { Kind k; k.rel=rel; k.range='r'; k.lab='m'; k.rr=rr; forest* F=make_forest(d,k,Pol());
          if (F) for (float v : real_boundary()) {
            if (!case_begin("forest-level MT real %s value %.9g (0x%08x)", k.name().c_str(), v, b_of(v))) continue;
            note_nontrivial(hmix(rel*2+rr+7, b_of(v)));
            try {
                node_handle h = F->handleForValue(v); float b; F->getValueFromHandle(h,b);
                float want = f_of(b_of(v) & ~1u);
                if (!(b==want)) violation("forest-real-roundtrip","handleForValue/getValueFromHandle: %.9g -> %.9g expected %.9g", v, b, want);
            } catch (MEDDLY::error e) { violation("forest-error","real value %g raised %s (%s:%u)", v, e.getName(), e.getFile(), e.getLine()); }
          }
        }
        // bool
        { Kind k; k.rel=rel; k.range='b'; k.lab='m'; k.rr=rr; forest* F=make_forest(d,k,Pol());
          if (F) for (int v=0; v<2; v++) {
            if (!case_begin("forest-level MT boolean %s value %d", k.name().c_str(), v)) continue;
            node_handle h = F->handleForValue(bool(v)); bool b; F->getValueFromHandle(h,b);
            if (b!=bool(v)) violation("forest-bool-roundtrip","boolean %d decodes to %d", v, (int)b);
            if ((h==0)!=(v==0)) violation("bool-zero-handle","boolean %d has handle %d", v, (int)h);
            terminal t((bool)(v!=0)); if (t.getHandle()!=h) violation("forest-bool-roundtrip","terminal(bool) disagrees with handleForValue");
            dd_edge c(F); F->createConstant(rangeval(bool(v)), c); Table tt; read_eval(c,k,s,tt); for (double x : tt) if (x!=v) violation("forest-bool-constant","constant %d evaluates to %g", v, x);
          }
        }
        // EV+ long edge values incl. +infinity
        { Kind k; k.rel=rel; k.range='i'; k.lab='p'; k.rr=rr; forest* F=make_forest(d,k,Pol());
          if (F) {
            std::vector<double> vals; for (long v : int_boundary()) vals.push_back((double)v);
            for (int e=31;e<=52;e++) { vals.push_back((double)(1L<<e)); vals.push_back(-(double)(1L<<e)); vals.push_back((double)((1L<<e)+1)); }
            vals.push_back(INF);
            for (double v : vals) {
                if (!case_begin("forest-level EV+ %s edge value %s", k.name().c_str(), v==INF?"+infinity":std::to_string((long)v).c_str())) continue;
                note_nontrivial(hmix(rel*2+rr+11, (unsigned long)(long)(v==INF?LONG_MAX:v)));
                try {
                    dd_edge c(F); F->createConstant(to_rangeval(k,v), c);
                    Table t; read_eval(c,k,s,t); for (double x : t) if (x!=v) { violation("evplus-constant","constant %s evaluates to %s", tab_str({v}).c_str(), tab_str({x}).c_str()); break; }
                    // below a node, next to 0, +infinity and a second finite value: normalisation must give the values back
                    for (double other : {0.0, INF, 5.0}) {
                        Table tt(s.points(rel), other); tt[0]=v; dd_edge e(F); Builder B(F,k,s); B.build(tt,e);
                        std::string err = check_edge(e,k,s,tt); if (!err.empty()) { violation("evplus-node","table [%s]: %s", tab_str(tt).c_str(), err.c_str()); break; }
                    }
                } catch (MEDDLY::error e) { violation("forest-error","EV+ value raised %s (%s:%u)", e.getName(), e.getFile(), e.getLine()); }
            }
          }
        }
    }
    // EV* float edge values (relations only): constants and power-of-two pairs (exactly representable quotients)
    for (char rr : {'F','Q','I'}) {
        Kind k; k.rel=true; k.range='r'; k.lab='t'; k.rr=rr; forest* F=make_forest(d,k,Pol());
        if (!F) continue;
        for (float v : real_boundary()) {
            if (!(fabsf(v) >= 1e-30f && fabsf(v) <= 1e30f) && v!=0) continue;
            if (!case_begin("forest-level EV* %s edge value %.9g", k.name().c_str(), v)) continue;
            note_nontrivial(hmix(rr+13, b_of(v)));
            try {
                dd_edge c(F); F->createConstant(rangeval((double)v), c);
                rangeval rv; minterm m(F); set_point(m,k,s,0); c.evaluate(m,rv);
                if ((float)double(rv) != v) violation("evtimes-constant","constant %.9g evaluates to %.9g", v, double(rv));
            } catch (MEDDLY::error e) { violation("forest-error","EV* value %g raised %s (%s:%u)", v, e.getName(), e.getFile(), e.getLine()); }
        }
        for (int e1=-20;e1<=20;e1+=5) for (int e2=-20;e2<=20;e2+=5) {
            if (!case_begin("forest-level EV* %s node with values 2^%d, 2^%d", k.name().c_str(), e1, e2)) continue;
            Table tt(s.points(true), 0.0); tt[0]=ldexp(1.0,e1); tt[3]=ldexp(1.0,e2); tt[1]=-ldexp(1.0,e2);
            dd_edge e(F); Builder B(F,k,s); B.build(tt,e);
            std::string err = check_edge(e,k,s,tt); if (!err.empty()) violation("evtimes-node","table [%s]: %s", tab_str(tt).c_str(), err.c_str());
        }
    }
    domain::destroy(d);
    lib_done();
}

static void run_unit(const std::map<std::string,std::string>& spec)
{
    std::string m = spec_get(spec,"mode");
    long stride = spec_int(spec,"stride",1);
    if (m=="int") run_int(spec_int(spec,"lo"), spec_int(spec,"hi"), stride);
    else if (m=="float") run_float(strtoul(spec_get(spec,"lo").c_str(),nullptr,10), strtoul(spec_get(spec,"hi").c_str(),nullptr,10), (unsigned long)stride);
    else if (m=="outofrange") run_outofrange();
    else run_forest();
}
int main(int argc, char** argv) { return std_main(argc, argv, list_units, run_unit); }
