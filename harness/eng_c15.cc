// C15 index sets: every boolean set of the shape -> CONVERT_TO_INDEX_SET -> rank function, getElement, cardinalities.
#include "common.h"

static void list_units(const std::string& tier)
{
    bool th = tier=="thorough";
    std::vector<std::string> shapes = {"S1","S2","S3","S4","S5","S6","S7"};
    if (th) { shapes.push_back("S8"); shapes.push_back("S9"); shapes.push_back("S11"); shapes.push_back("S12"); }
    for (auto& sh : shapes) for (char rs : {'F','Q'}) for (char ri : {'F','Q'}) for (const char* pol : {"eao","sap","fho"}) {
        if (!th && strcmp(pol,"eao") && shape_by_name(sh).setPoints()>8) continue;
        printf("shape=%s,src=%c,idx=%c,pol=%s\n", sh.c_str(), rs, ri, pol);
    }
    if (!th) for (char rs : {'F','Q'}) printf("shape=S8,src=%c,idx=F,pol=eao\n", rs);
}

static void fmt_case(char* buf, size_t n, const long* a)
{
    snprintf(buf, n, "index-set shape=%s src=%c idx=%c pass=%ld set=f%ld (bit p of the number = membership of point p, x_1 least significant) step=%s",
        (const char*)a[0], (char)a[1], (char)a[2], a[3], a[4], (const char*)a[5]);
}

static void run_unit(const std::map<std::string,std::string>& spec)
{
    static std::string shname = spec_get(spec,"shape");
    Shape s = shape_by_name(shname);
    Pol pol = pol_parse(spec_get(spec,"pol","eao"));
    Kind ks; ks.rel=false; ks.range='b'; ks.lab='m'; ks.rr=spec_get(spec,"src","F")[0];
    Kind ki; ki.rel=false; ki.range='i'; ki.lab='x'; ki.rr=spec_get(spec,"idx","F")[0];
    long P = s.setPoints(); unsigned long U = 1UL<<P;

    lib_init();
    domain* d = make_domain(s);
    forest* FS = make_forest(d,ks,pol);
    forest* FI = make_forest(d,ki,pol);
    if (!FS || !FI) { lib_done(); return; }
    unary_operation* conv = get_uop(CONVERT_TO_INDEX_SET(), FS, FI, "CONVERT_TO_INDEX_SET");
    if (!conv) { lib_done(); return; }

    // lexicographic order of the library: top variable most significant = our point number order (x_K most significant)
    for (int pass=0; pass<2; pass++) {
        Universe Uv; if (!Uv.build(FS,ks,s,{0,1})) break;
        std::vector<dd_edge> held;    // index sets of some earlier sets stay alive (shared sub-graphs, warm cache)
        for (unsigned long ii=0; ii<U && !ctx.stop; ii++) {
            unsigned long i = pass==0 ? ii : U-1-ii;
            // expected rank table
            Table want(P); long n=0;
            std::vector<long> members;
            for (long p=0;p<P;p++) { if ((i>>p)&1) { want[p]=(double)n++; members.push_back(p); } else want[p]=INF; }
            dd_edge r(FI);
            if (case_lazy(fmt_case, (long)shname.c_str(), ks.rr, ki.rr, pass, (long)i, (long)"convert+evaluate")) {
                try {
                    conv->compute(Uv.e[i], r);
                    std::string err = check_edge(r,ki,s,want);
                    if (!err.empty()) violation("wrong-index-function","%s", err.c_str());
                    if (n>0 && r.getNode()>0) {
                        long c = FI->getIndexSetCardinality(r.getNode());
                        if (c != n) violation("wrong-cardinality","root node stores cardinality %ld, the set has %ld members", c, n);
                    }
                    if (n==0 && r.getNode()!=0) violation("wrong-index-function","index set of the empty set is not the transparent (infinity) edge");
                } catch (MEDDLY::error e) { violation("op-error","convert threw %s (%s:%u)", e.getName(), e.getFile(), e.getLine()); }
                if (n>1 && n<P) note_nontrivial(hmix(pass,i));
            } else if (ctx.only>=0) { try { conv->compute(Uv.e[i], r); } catch (MEDDLY::error e) {} }
            if (case_lazy(fmt_case, (long)shname.c_str(), ks.rr, ki.rr, pass, (long)i, (long)"getElement(-2..n+2)")) {
                try {
                    if (r.getForest()==nullptr || (r.getNode()==0 && n>0)) conv->compute(Uv.e[i], r);
                    minterm m(FI);
                    int x[16];
                    for (long idx=-2; idx<=n+2; idx++) {
                        for (int k=1;k<=s.K();k++) m.setVar(k, 0);
                        bool got = r.getElement(idx, m);
                        bool should = (idx>=0 && idx<n);
                        if (got != should) { violation("getElement-result","getElement(%ld) returned %s for a set with %ld members", idx, got?"true":"false", n); break; }
                        if (got) {
                            for (int k=1;k<=s.K();k++) x[k]=m.from(k);
                            long p = encode_set(s,x);
                            if (p != members[idx]) { violation("getElement-member","getElement(%ld) returned point %ld, the member with that index is point %ld", idx, p, members[idx]); break; }
                        }
                    }
                } catch (MEDDLY::error e) { violation("op-error","getElement threw %s (%s:%u)", e.getName(), e.getFile(), e.getLine()); }
            }
            if ((i % 7)==3 && held.size()<64) held.push_back(r);
            if ((ii & 4095)==4095 || ii==U-1) {
                if (case_lazy(fmt_case, (long)shname.c_str(), ks.rr, ki.rr, pass, (long)i, (long)"audit (A1-A14 incl. stored cardinalities)")) {
                    std::string a = audit_forest(FI,ki); if (!a.empty()) violation("audit","index forest: %s", a.c_str());
                    a = audit_forest(FS,ks); if (!a.empty()) violation("audit","source forest: %s", a.c_str());
                }
            }
            if (ctx.only<0 && ctx.upto<0 && ctx.viol>ctx.maxviol) ctx.stop=true;
        }
        std::string e = Uv.recheck(); if (!e.empty()) violation("operand-changed","%s",e.c_str());
        held.clear(); Uv.clear();
        // second pass: sources were released (their nodes die, handles are recycled) and are rebuilt in reverse order
        // while the conversion's compute-table entries (which carry cardinalities) are still present
    }
    domain::destroy(d);
    lib_done();
}
int main(int argc, char** argv) { return std_main(argc, argv, list_units, run_unit); }
