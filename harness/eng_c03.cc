// C03 construction: single minterms, minterm collections (max / min, every insertion order), constants, variable edges.
// Every pattern of fixed / DONT_CARE / DONT_CHANGE positions x every value x every admissible default.
#include "common.h"

struct MT { std::vector<int> fr, to; double val; };

static void list_units(const std::string& tier)
{
    bool th = tier=="thorough";
    for (const Kind& k : all_set_kinds()) {
        for (const char* sh : {"S1","S2","S3","S4","S5"}) printf("kind=%s,shape=%s,mult=%d\n", k.name().c_str(), sh, (!strcmp(sh,"S1")||!strcmp(sh,"S2")||th) ? 3 : 2);
        if (th) printf("kind=%s,shape=S6,mult=2\n", k.name().c_str());
        if (th) printf("kind=%s,shape=S7,mult=2,vals=2\n", k.name().c_str());
    }
    for (const Kind& k : all_rel_kinds()) {
        printf("kind=%s,shape=S1,mult=3\n", k.name().c_str());
        printf("kind=%s,shape=S2,mult=2,vals=%d\n", k.name().c_str(), th?4:2);
        printf("kind=%s,shape=S3,mult=%d,vals=%d\n", k.name().c_str(), th?2:1, th?2:4);
        if (th) printf("kind=%s,shape=S4,mult=1\n", k.name().c_str());
    }
}

static bool matches(const Kind& k, const Shape& s, const MT& m, const int* x, const int* xp)
{
    for (int v=1; v<=s.K(); v++) {
        if (m.fr[v]>=0 && x[v]!=m.fr[v]) return false;
        if (k.rel) {
            if (m.to[v]>=0 && xp[v]!=m.to[v]) return false;
            if (m.to[v]==DONT_CHANGE && xp[v]!=x[v]) return false;
        }
    }
    return true;
}
static std::string mt_str(const Kind& k, const Shape& s, const MT& m)
{
    std::string r="("; char b[24];
    for (int v=s.K(); v>=1; v--) {
        auto one=[&](int z){ if (z==DONT_CARE) return std::string("x"); if (z==DONT_CHANGE) return std::string("i"); return std::to_string(z); };
        r += one(m.fr[v]); if (k.rel) { r += "->"; r += one(m.to[v]); } if (v>1) r += ",";
    }
    snprintf(b,sizeof b,")=%s", m.val==INF?"oo":tab_str({m.val}).c_str()); r+=b;
    return r;
}
static void fill(minterm& mm, const Kind& k, const Shape& s, const MT& m)
{
    for (int v=1; v<=s.K(); v++) { if (k.rel) mm.setVars(v, m.fr[v], m.to[v]); else mm.setVar(v, m.fr[v]); }
    mm.setValue(to_rangeval(k, m.val));
}

static void run_unit(const std::map<std::string,std::string>& spec)
{
    Kind k = kind_parse(spec_get(spec,"kind"));
    Shape s = shape_by_name(spec_get(spec,"shape"));
    int mult = (int)spec_int(spec,"mult",2);
    size_t nvals = (size_t)spec_int(spec,"vals",4);
    std::vector<double> V = alphabet(k);
    std::vector<double> MV = V; if (MV.size()>nvals) { MV = {V[0], V.back()}; if (nvals>=3) MV.push_back(V[1]); }
    long P = s.points(k.rel);
    lib_init();
    domain* d = make_domain(s);
    forest* F = make_forest(d,k,Pol());
    if (!F) { lib_done(); return; }
    // all patterns
    std::vector<MT> pats;
    {
        std::vector<std::pair<int,int>> opts[8];
        for (int v=1; v<=s.K(); v++) {
            int b=s.b[v-1];
            for (int f=-1; f<b; f++) {
                if (!k.rel) { opts[v].push_back({f,0}); continue; }
                for (int t=-2; t<b; t++) { opts[v].push_back({f,t}); }
            }
        }
        std::vector<size_t> ix(s.K()+1,0);
        for (;;) {
            MT m; m.fr.assign(s.K()+1,0); m.to.assign(s.K()+1,0); m.val=0;
            for (int v=1; v<=s.K(); v++) { m.fr[v]=opts[v][ix[v]].first; m.to[v]=opts[v][ix[v]].second; }
            pats.push_back(m);
            int v=1; while (v<=s.K() && ++ix[v]==opts[v].size()) { ix[v]=0; ++v; }
            if (v>s.K()) break;
        }
    }
    ctx.counters["patterns"]=(long)pats.size();
    std::vector<MT> mts;   // pattern x value
    for (auto& p : pats) for (double v : MV) { MT m=p; m.val=v; mts.push_back(m); }
    ctx.counters["minterms"]=(long)mts.size();
    int x[16], xp[16];
    auto ref_table = [&](const std::vector<const MT*>& ms, double deflt, bool useMax) {
        Table t(P);
        for (long p=0;p<P;p++) {
            if (k.rel) decode_rel(s,p,x,xp); else decode_set(s,p,x);
            bool any=false; double acc=0;
            for (const MT* m : ms) if (matches(k,s,*m,x,xp)) { if (!any) { acc=m->val; any=true; } else acc = useMax ? std::max(acc,m->val) : std::min(acc,m->val); }
            t[p] = any ? acc : deflt;
        }
        return t;
    };
    auto judge = [&](dd_edge& e, const Table& want, const char* what) {
        std::string err = check_result(e,k,s,want,k.range!='r');
        if (!err.empty()) violation(err.compare(0,12,"NONCANONICAL")==0?"noncanonical-result":"wrong-result","%s: %s", what, err.c_str());
        if (!tab_is_const(want)) note_nontrivial(hstr(ctx.cur));
    };
    dd_edge e(F);
    // (a) single minterms x defaults
    for (auto& m : mts) for (double dv : V) {
        if (ctx.stop) break;
        if (!case_begin("single minterm kind=%s shape=%s %s default=%s", k.name().c_str(), s.name.c_str(), mt_str(k,s,m).c_str(), tab_str({dv}).c_str())) continue;
        try { minterm mm(F); fill(mm,k,s,m); mm.buildFunction(to_rangeval(k,dv), e); std::vector<const MT*> ms{&m}; judge(e, ref_table(ms,dv,true), "minterm::buildFunction"); }
        catch (MEDDLY::error er) { violation("op-error","buildFunction threw %s (%s:%u)", er.getName(), er.getFile(), er.getLine()); }
        if (ctx.viol>ctx.maxviol && ctx.only<0 && ctx.upto<0) ctx.stop=true;
    }
    // (b) collections of `mult` minterms (every multiset, in both orders / all rotations), max and min, every admissible default;
    //     one minterm_coll object is reused for all cases (it is permuted in place by the builder)
    minterm_coll mc(8, F);
    std::vector<size_t> ix;
    for (int n=2; n<=mult && !ctx.stop; n++) {
        // for n = 3 restrict to the first value and last value to bound the product
        std::vector<const MT*> pool; for (auto& m : mts) { if (n==3 && mts.size()>200 && !(m.val==MV[0] || m.val==MV.back())) continue; pool.push_back(&m); }
        if (n==3 && pool.size()>160) { std::vector<const MT*> t; for (size_t i=0;i<pool.size();i+= (pool.size()+159)/160) t.push_back(pool[i]); pool=t; }
        ix.assign(n,0);
        for (;;) {
            if (ctx.stop) break;
            std::vector<const MT*> ms; for (int i=0;i<n;i++) ms.push_back(pool[ix[i]]);
            double lo=INF, hi=-INF; for (auto* m : ms) { lo=std::min(lo,m->val); hi=std::max(hi,m->val); }
            for (int useMax=1; useMax>=0; useMax--) for (double dv : V) {
                if (useMax ? !(dv<=lo) : !(dv>=hi)) continue;      // documented precondition on the default
                for (int rot=0; rot<n; rot++) {
                    std::string desc; for (int i=0;i<n;i++) { desc += mt_str(k,s,*ms[(i+rot)%n]); desc += ' '; }
                    if (!case_begin("collection kind=%s shape=%s %s[ %s] default=%s", k.name().c_str(), s.name.c_str(), useMax?"max":"min", desc.c_str(), tab_str({dv}).c_str())) continue;
                    try {
                        mc.clear();
                        for (int i=0;i<n;i++) { fill(mc.unused(),k,s,*ms[(i+rot)%n]); mc.pushUnused(); }
                        if (useMax) mc.buildFunctionMax(to_rangeval(k,dv), e); else mc.buildFunctionMin(to_rangeval(k,dv), e);
                        judge(e, ref_table(ms,dv,useMax), useMax?"buildFunctionMax":"buildFunctionMin");
                    } catch (MEDDLY::error er) { violation("op-error","%s threw %s (%s:%u)", useMax?"buildFunctionMax":"buildFunctionMin", er.getName(), er.getFile(), er.getLine()); }
                }
            }
            if (ctx.viol>ctx.maxviol && ctx.only<0 && ctx.upto<0) ctx.stop=true;
            // next multiset (non-decreasing index vector)
            int i=n-1; while (i>=0 && ix[i]==pool.size()-1) --i;
            if (i<0) break;
            ++ix[i]; for (int j=i+1;j<n;j++) ix[j]=ix[i];
        }
    }
    // (c) constants
    for (double v : V) {
        if (!case_begin("createConstant kind=%s shape=%s value=%s", k.name().c_str(), s.name.c_str(), tab_str({v}).c_str())) continue;
        try { F->createConstant(to_rangeval(k,v), e); judge(e, Table(P,v), "createConstant"); }
        catch (MEDDLY::error er) { violation("op-error","createConstant threw %s (%s:%u)", er.getName(), er.getFile(), er.getLine()); }
    }
    // (d) variable edges: every variable, primed and unprimed, every terms vector over V, and nullptr (terms[i] = i)
    for (int var=1; var<=s.K() && !ctx.stop; var++) for (int pr=0; pr<(k.rel?2:1); pr++) {
        int b = s.b[var-1]; unsigned long nt = ipow(V.size(), b);
        for (unsigned long ti=0; ti<=nt; ti++) {
            const bool nul = ti==nt;
            std::vector<double> tv(b);
            if (nul) { for (int i=0;i<b;i++) tv[i] = k.range=='b' ? (i!=0) : (double)i; }
            else { unsigned long y=ti; for (int i=0;i<b;i++) { tv[i]=V[y%V.size()]; y/=V.size(); } }
            if (!case_begin("createEdgeForVar kind=%s shape=%s var=%d%s terms=%s", k.name().c_str(), s.name.c_str(), var, pr?"'":"", nul?"null":tab_str(tv).c_str())) continue;
            Table want(P);
            for (long p=0;p<P;p++) { if (k.rel) { decode_rel(s,p,x,xp); want[p]=tv[pr?xp[var]:x[var]]; } else { decode_set(s,p,x); want[p]=tv[x[var]]; } }
            try {
                if (nul) F->createEdgeForVar(var, pr, e);
                else { std::vector<rangeval> terms; for (double v : tv) terms.push_back(to_rangeval(k,v)); F->createEdgeForVar(var, pr, terms.data(), e); }
                judge(e, want, "createEdgeForVar");
            } catch (MEDDLY::error er) {
                if (nul && k.range=='b') { if (declined_once.insert("evar-null-bool").second) declined("createEdgeForVar(null terms) on a boolean forest: %s", er.getName()); }
                else violation("op-error","createEdgeForVar threw %s (%s:%u)", er.getName(), er.getFile(), er.getLine());
            }
        }
    }
    e.detach();
    { std::string a = audit_forest(F,k); if (!a.empty()) { snprintf(ctx.cur,sizeof ctx.cur,"final audit kind=%s shape=%s",k.name().c_str(),s.name.c_str()); violation("audit","%s",a.c_str()); } }
    domain::destroy(d);
    lib_done();
}
int main(int argc, char** argv) { return std_main(argc, argv, list_units, run_unit); }
