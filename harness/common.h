// Common harness machinery: case bookkeeping/reporting, shapes and truth tables,
// forest kinds and policies, the harness builder (createReducedNode only),
// two independent readers (dd_edge::evaluate and the harness walker), and the auditor A1..A15.
// All reads of private library state happen in this header (compiled with -fno-access-control).
#ifndef VERIF_COMMON_H
#define VERIF_COMMON_H

#include "meddly.h"
#include "unique_table.h"
#include "compute_table.h"
#include "ct_initializer.h"
#include "storage/ct_styles.h"
#include "node_headers.h"

#include <cstdio>
#include <cstdlib>
#include <cstring>
#include <cstdarg>
#include <cmath>
#include <csignal>
#include <unistd.h>
#include <string>
#include <vector>
#include <map>
#include <set>
#include <unordered_set>
#include <unordered_map>
#include <algorithm>
#include <functional>
#include <limits>
#include <sstream>

using namespace MEDDLY;

// =====================================================================================
// 1. Case bookkeeping and reporting protocol (read by /verif/check)
//    stdout lines:  VIOL\t<caseno>\t<tag>\t<case>\t<msg>     SAMPLE\t<case>
//                   STAT\tk=v\t...    DECLINED\t<what>   CRASH\t<caseno>\t<sig>\t<case>
// =====================================================================================
struct Ctx {
    long caseno = 0;        // running number of the case inside this unit
    long only = -1;         // execute only this case (isolated replay)
    long upto = -1;         // execute cases up to and including this one (in-context replay)
    long evals = 0;         // executed cases
    long nontrivial = 0;    // distinct non-trivial cases (per-check rule)
    long viol = 0;
    long maxviol = 8;
    long transitions = 0;   // E2: symbols executed
    long audits = 0;
    char cur[16384];
    std::unordered_set<unsigned long> outcomes;   // distinct abstract outcomes (hashes)
    std::unordered_set<unsigned long> ntkeys;     // distinct non-trivial keys
    std::vector<std::string> samples;
    std::map<std::string,long> counters;
    bool stop = false;
    bool quiet = false;     // suppress violation reports (re-execution needed only to keep an enumeration aligned in replays)
} ctx;

static inline unsigned long hmix(unsigned long h, unsigned long v) {
    h ^= v + 0x9e3779b97f4a7c15UL + (h<<6) + (h>>2);
    return h * 0xff51afd7ed558ccdUL;
}
static inline unsigned long hstr(const std::string& s) {
    unsigned long h = 1469598103934665603UL;
    for (unsigned char c : s) { h ^= c; h *= 1099511628211UL; }
    return h;
}

static void materialize();
static void lz_fn_reset();
static void sanitize(char* s) { for (; *s; ++s) if (*s=='\t' || *s=='\n') *s=' '; }

// Watchdog ("make waiting visible"): a case is a micro-scale execution; if 8 consecutive cases do not complete within
// VERIF_CASE_TIMEOUT_S (default 300 s) the library is looping inside the current case.  SIGALRM is reported like a crash
// (CRASH line with signal 14, the current case) and classified by the driver as tag 'hang'.
static unsigned g_case_timeout = 300;
static inline void watchdog_kick() { if ((ctx.evals & 7) == 1) alarm(g_case_timeout); }

// Begin a case. Returns true when the case must be executed.
static bool case_begin(const char* fmt, ...) __attribute__((format(printf,1,2)));
static bool case_begin(const char* fmt, ...)
{
    ++ctx.caseno;
    if (ctx.stop) return false;
    if (ctx.only >= 0 && ctx.caseno != ctx.only) return false;
    if (ctx.upto >= 0 && ctx.caseno > ctx.upto) { ctx.stop = true; return false; }
    lz_fn_reset();
    va_list ap; va_start(ap, fmt);
    vsnprintf(ctx.cur, sizeof(ctx.cur), fmt, ap);
    va_end(ap);
    sanitize(ctx.cur);
    ++ctx.evals;
    watchdog_kick();
    // keep first, a middle one (reservoir by powers of two) and the last as samples
    if (ctx.samples.empty()) ctx.samples.push_back(ctx.cur);
    else if ((ctx.evals & (ctx.evals-1)) == 0) { if (ctx.samples.size()<2) ctx.samples.push_back(ctx.cur); else ctx.samples[1] = ctx.cur; }
    return true;
}
static void note_nontrivial(unsigned long key) { if (ctx.ntkeys.insert(key).second) ++ctx.nontrivial; }
static void note_outcome(unsigned long key) { ctx.outcomes.insert(key); }

static void violation(const char* tag, const char* fmt, ...) __attribute__((format(printf,2,3)));
static void violation(const char* tag, const char* fmt, ...)
{
    char msg[8192];
    va_list ap; va_start(ap, fmt);
    vsnprintf(msg, sizeof(msg), fmt, ap);
    va_end(ap);
    sanitize(msg);
    if (ctx.quiet) return;
    materialize();
    {
        // tags of known findings (listed by the driver from known_findings.json): reported (first 3 per tag) and counted,
        // but they do not count towards the stop-after-N-violations rule, so the sweep continues past them
        static std::set<std::string> soft; static bool init=false;
        if (!init) { init=true; const char* e=getenv("VERIF_SOFT_TAGS"); if (e) { std::string z=e; size_t i=0; while (i<z.size()) { size_t j=z.find(',',i); if (j==std::string::npos) j=z.size(); soft.insert(z.substr(i,j-i)); i=j+1; } } }
        if (soft.count(tag)) {
            long n = ++ctx.counters[std::string("known:")+tag];
            if (n<=3) { printf("VIOL\t%ld\t%s\t%s\t%s\n", ctx.caseno, tag, ctx.cur, msg); fflush(stdout); }
            return;
        }
    }
    ++ctx.viol;
    if (ctx.viol <= ctx.maxviol) {
        printf("VIOL\t%ld\t%s\t%s\t%s\n", ctx.caseno, tag, ctx.cur, msg);
        fflush(stdout);
    }
}
static void declined(const char* fmt, ...) __attribute__((format(printf,1,2)));
static void declined(const char* fmt, ...)
{
    char msg[1024];
    va_list ap; va_start(ap, fmt);
    vsnprintf(msg, sizeof(msg), fmt, ap);
    va_end(ap);
    sanitize(msg);
    printf("DECLINED\t%s\n", msg);
}
static void finish_unit()
{
    alarm(0);
    materialize();
    if (ctx.evals && (ctx.samples.empty() || ctx.samples.back() != ctx.cur)) ctx.samples.push_back(ctx.cur);
    for (auto& s : ctx.samples) printf("SAMPLE\t%s\n", s.c_str());
    printf("STAT\tevals=%ld\tnontrivial=%ld\toutcomes=%zu\ttransitions=%ld\taudits=%ld\tviol=%ld\tcases=%ld",
        ctx.evals, ctx.nontrivial, ctx.outcomes.size(), ctx.transitions, ctx.audits, ctx.viol, ctx.caseno);
    for (auto& kv : ctx.counters) printf("\t%s=%ld", kv.first.c_str(), kv.second);
    printf("\n");
    fflush(stdout);
}

static void crash_handler(int sig)
{
    materialize();
    char buf[17000];
    int n = snprintf(buf, sizeof(buf), "\nCRASH\t%ld\t%d\t%s\n", ctx.caseno, sig, ctx.cur);
    if (n > 0) { ssize_t r = write(1, buf, (size_t)n); (void)r; }
    _exit(100 + sig);
}
extern "C" void __asan_on_error()
{
    materialize();
    char buf[17000];
    int n = snprintf(buf, sizeof(buf), "\nCRASH\t%ld\t%d\t%s\n", ctx.caseno, 99, ctx.cur);
    if (n > 0) { ssize_t r = write(1, buf, (size_t)n); (void)r; }
}
static void install_handlers()
{
    signal(SIGSEGV, crash_handler);
    signal(SIGABRT, crash_handler);
    signal(SIGBUS, crash_handler);
    signal(SIGFPE, crash_handler);
    signal(SIGILL, crash_handler);
    signal(SIGALRM, crash_handler);
    { const char* e = getenv("VERIF_CASE_TIMEOUT_S"); if (e && atoi(e)>0) g_case_timeout = (unsigned)atoi(e); }
    setvbuf(stdout, nullptr, _IOFBF, 1<<16);
    strcpy(ctx.cur, "(before first case)");
}

// Unit-argument helpers: a unit spec is "key=value,key=value".
static std::map<std::string,std::string> parse_spec(const std::string& s)
{
    std::map<std::string,std::string> m;
    size_t i = 0;
    while (i < s.size()) {
        size_t j = s.find(',', i); if (j == std::string::npos) j = s.size();
        std::string kv = s.substr(i, j-i);
        size_t e = kv.find('=');
        if (e != std::string::npos) m[kv.substr(0,e)] = kv.substr(e+1);
        i = j+1;
    }
    return m;
}
static std::string spec_get(const std::map<std::string,std::string>& m, const char* k, const char* dflt="")
{ auto it = m.find(k); return it==m.end() ? std::string(dflt) : it->second; }
static long spec_int(const std::map<std::string,std::string>& m, const char* k, long dflt=0)
{ auto it = m.find(k); return it==m.end() ? dflt : atol(it->second.c_str()); }

// Standard main(): "list <tier>" prints units; "run <unit> [only=N|upto=N]" runs one.
typedef void (*list_fn)(const std::string& tier);
typedef void (*run_fn)(const std::map<std::string,std::string>& spec);
static int std_main(int argc, char** argv, list_fn lf, run_fn rf)
{
    install_handlers();
    if (argc >= 3 && !strcmp(argv[1], "list")) { lf(argv[2]); fflush(stdout); return 0; }
    if (argc >= 3 && !strcmp(argv[1], "run")) {
        for (int i=3; i<argc; i++) {
            if (!strncmp(argv[i], "only=", 5)) ctx.only = atol(argv[i]+5);
            if (!strncmp(argv[i], "upto=", 5)) ctx.upto = atol(argv[i]+5);
        }
        if (ctx.only >= 0 || ctx.upto >= 0) ctx.maxviol = 1000;
        try {
            rf(parse_spec(argv[2]));
        } catch (MEDDLY::error e) {
            violation("uncaught-error", "uncaught MEDDLY::error %s at %s:%u", e.getName(), e.getFile(), e.getLine());
        }
        finish_unit();
        return 0;
    }
    fprintf(stderr, "usage: %s list <quick|thorough> | run <unitspec> [only=N|upto=N]\n", argv[0]);
    return 2;
}

// =====================================================================================
// 2. Shapes, points, tables
// =====================================================================================
static const double INF = std::numeric_limits<double>::infinity();

struct Shape {
    std::vector<int> b;     // b[k-1] = size of variable k (bottom-up)
    std::string name;
    int K() const { return (int)b.size(); }
    long setPoints() const { long p=1; for (int x : b) p*=x; return p; }
    long relPoints() const { long p=1; for (int x : b) p*=(long)x*x; return p; }
    long points(bool rel) const { return rel ? relPoints() : setPoints(); }
};
static Shape shape_by_name(const std::string& n)
{
    static const std::map<std::string,std::vector<int>> tab = {
        {"S1",{2}}, {"S2",{3}}, {"S3",{2,2}}, {"S4",{2,3}}, {"S5",{3,2}}, {"S6",{2,2,2}},
        {"S7",{2,3,2}}, {"S8",{2,2,2,2}}, {"S9",{3,3}}, {"S10",{4}}, {"S11",{3,2,2}}, {"S12",{2,2,3}}, {"S13",{3,4}}
    };
    Shape s; s.name = n; s.b = tab.at(n); return s;
}
// point <-> digits.  Sets: x[k] for k=1..K, x_1 least significant.
// Relations: digit of variable k is from*b+to.
static inline void decode_set(const Shape& s, long p, int* x) { for (int k=1;k<=s.K();k++){ x[k]=p%s.b[k-1]; p/=s.b[k-1]; } }
static inline long encode_set(const Shape& s, const int* x) { long p=0; for (int k=s.K();k>=1;k--) p=p*s.b[k-1]+x[k]; return p; }
static inline void decode_rel(const Shape& s, long p, int* x, int* xp) { for (int k=1;k<=s.K();k++){ int b=s.b[k-1]; int d=p%(b*b); p/=(b*b); x[k]=d/b; xp[k]=d%b; } }
static inline long encode_rel(const Shape& s, const int* x, const int* xp) { long p=0; for (int k=s.K();k>=1;k--){ int b=s.b[k-1]; p=p*(b*b)+x[k]*b+xp[k]; } return p; }

typedef std::vector<double> Table;

static std::string tab_str(const Table& t)
{
    std::string s;
    char buf[32];
    for (size_t i=0;i<t.size();i++) {
        if (i) s += ' ';
        if (t[i]==INF) s += "oo";
        else if (t[i]==(long)t[i]) { snprintf(buf,sizeof buf,"%ld",(long)t[i]); s+=buf; }
        else { snprintf(buf,sizeof buf,"%g",t[i]); s+=buf; }
    }
    return s;
}
static Table tab_parse(const std::string& s)
{
    Table t; std::istringstream is(s); std::string w;
    while (is >> w) t.push_back(w=="oo" ? INF : atof(w.c_str()));
    return t;
}
static unsigned long tab_hash(const Table& t) { unsigned long h=7; for (double d : t) { unsigned long u; memcpy(&u,&d,8); h=hmix(h,u);} return h; }
// function number idx in the lexicographic enumeration of |V|^points tables (point 0 least significant)
static Table tab_from_index(unsigned long idx, long points, const std::vector<double>& V)
{
    Table t(points);
    for (long p=0;p<points;p++) { t[p]=V[idx % V.size()]; idx/=V.size(); }
    return t;
}
static unsigned long ipow(unsigned long b, unsigned long e) { unsigned long r=1; while (e--) { if (r > (1UL<<62)/b) return ~0UL; r*=b; } return r; }
static bool tab_is_const(const Table& t) { for (double d : t) if (d!=t[0]) return false; return true; }

// =====================================================================================
// 3. Forest kinds, policies
// =====================================================================================
struct Kind {
    bool rel = false;
    char range = 'b';   // 'b' bool, 'i' int, 'r' real
    char lab = 'm';     // 'm' multi-terminal, 'p' EV+, 'x' index set, 't' EV*
    char rr = 'F';      // 'F' fully, 'Q' quasi, 'I' identity
    std::string name() const {
        std::string s; s += rel?'R':'S'; s+=':';
        s += lab=='m'?"MT": lab=='p'?"EVp": lab=='x'?"IDX":"EVt";
        s += range; s+=':'; s+=rr; return s;
    }
    bool isMT() const { return lab=='m'; }
    bool isEVp() const { return lab=='p' || lab=='x'; }
    bool isEVt() const { return lab=='t'; }
    double dflt() const { return isEVp() ? INF : 0.0; }
    bool operator==(const Kind& o) const { return rel==o.rel && range==o.range && lab==o.lab && rr==o.rr; }
    bool sameType(const Kind& o) const { return rel==o.rel && range==o.range && lab==o.lab; }
};
static Kind kind_parse(const std::string& s)   // e.g. "S:MTb:F"
{
    Kind k; k.rel = s[0]=='R';
    std::string l = s.substr(2,3);
    k.lab = l=="MTb"||l=="MTi"||l=="MTr" ? 'm' : l.substr(0,2)=="EV" ? (l[2]=='p'?'p':'t') : 'x';
    if (k.lab=='m') { k.range = s[4]; k.rr = s[6]; }
    else { k.range = s[5]; k.rr = s[7]; }
    return k;
}
static std::vector<Kind> all_set_kinds(bool withIndex=false)
{
    std::vector<Kind> v;
    for (char rr : {'F','Q'}) {
        for (char r : {'b','i','r'}) { Kind k; k.rel=false; k.range=r; k.lab='m'; k.rr=rr; v.push_back(k); }
        { Kind k; k.rel=false; k.range='i'; k.lab='p'; k.rr=rr; v.push_back(k); }
        if (withIndex) { Kind k; k.rel=false; k.range='i'; k.lab='x'; k.rr=rr; v.push_back(k); }
    }
    return v;
}
static std::vector<Kind> all_rel_kinds()
{
    std::vector<Kind> v;
    for (char rr : {'F','Q','I'}) {
        for (char r : {'b','i','r'}) { Kind k; k.rel=true; k.range=r; k.lab='m'; k.rr=rr; v.push_back(k); }
        { Kind k; k.rel=true; k.range='i'; k.lab='p'; k.rr=rr; v.push_back(k); }
        { Kind k; k.rel=true; k.range='r'; k.lab='t'; k.rr=rr; v.push_back(k); }
    }
    return v;
}

struct Pol {
    char stor = 'e';  // 'f' full only, 's' sparse only, 'e' either
    char mm = 'a';    // 'g' ORIGINAL_GRID, 'a' ARRAY_PLUS_GRID, 'm' MALLOC, 'h' HEAP
    char del = 'o';   // 'o' optimistic, 'p' pessimistic, 'n' never
    std::string name() const { std::string s; s+=stor; s+=mm; s+=del; return s; }
};
static Pol pol_parse(const std::string& s) { Pol p; if (s.size()>=3) { p.stor=s[0]; p.mm=s[1]; p.del=s[2]; } return p; }
static std::vector<Pol> all_pols()
{
    std::vector<Pol> v;
    for (char s : {'e','f','s'}) for (char m : {'a','g','m','h'}) for (char d : {'o','p','n'}) { Pol p; p.stor=s; p.mm=m; p.del=d; v.push_back(p); }
    return v;
}
static std::vector<Pol> covering_pols()   // each storage flag, each manager, each deletion policy at least once
{
    std::vector<Pol> v;
    for (const char* n : {"eao","fgp","smn","ehp","sao","fho"}) v.push_back(pol_parse(n));
    return v;
}

static policies make_policies(const Kind& k, const Pol& p)
{
    policies pol(k.rel);
    pol.useDefaults(k.rel);
    switch (k.rr) { case 'F': pol.setFullyReduced(); break; case 'Q': pol.setQuasiReduced(); break; default: pol.setIdentityReduced(); }
    switch (p.stor) { case 'f': pol.setFullStorage(); break; case 's': pol.setSparseStorage(); break; default: pol.setFullOrSparse(); }
    switch (p.mm) { case 'g': pol.nodemm = ORIGINAL_GRID; break; case 'm': pol.nodemm = MALLOC_MANAGER; break; case 'h': pol.nodemm = HEAP_MANAGER; break; default: pol.nodemm = ARRAY_PLUS_GRID; }
    switch (p.del) { case 'p': pol.setPessimistic(); break; case 'n': pol.setNeverDelete(); break; default: pol.setOptimistic(); }
    return pol;
}
static range_type rt_of(char r) { return r=='b' ? range_type::BOOLEAN : r=='i' ? range_type::INTEGER : range_type::REAL; }
static edge_labeling el_of(char l) { return l=='m' ? edge_labeling::MULTI_TERMINAL : l=='p' ? edge_labeling::EVPLUS : l=='x' ? edge_labeling::INDEX_SET : edge_labeling::EVTIMES; }

// Returns nullptr if the library declines the kind (never a violation; listed in the evidence).
static forest* make_forest(domain* d, const Kind& k, const Pol& p, const policies* override_pol=nullptr)
{
    policies pol = override_pol ? *override_pol : make_policies(k, p);
    try {
        forest* F = forest::create(d, k.rel, rt_of(k.range), el_of(k.lab), pol);
        // bind the requested policy to the one in force
        const policies& q = F->getPolicies();
        if (q.reduction!=pol.reduction || q.storage_flags!=pol.storage_flags || q.deletion!=pol.deletion || q.nodemm!=pol.nodemm || q.useReferenceCounts!=pol.useReferenceCounts) {
            printf("\nCRASH\t%ld\t%d\tharness: forest policy %s/%s requested but not in force\n", ctx.caseno, 98, k.name().c_str(), p.name().c_str()); fflush(stdout); _exit(98);
        }
        return F;
    } catch (MEDDLY::error e) {
        declined("forest %s/%s: %s", k.name().c_str(), p.name().c_str(), e.getName());
        return nullptr;
    }
}
static domain* make_domain(const Shape& s) { return domain::createBottomUp(s.b.data(), (unsigned)s.K()); }

// Value alphabets
static std::vector<double> alphabet(const Kind& k, int variant=0)
{
    if (k.range=='b') return {0,1};
    if (variant==2) {        // two values: a function over 64 points is then a 64-bit mask (relations over three binary variables)
        if (k.lab=='p' || k.lab=='x') return {INF,2};
        if (k.lab=='t') return {0,2};
        if (k.range=='r') return {0,0.5};
        return {0,2};
    }
    if (k.lab=='p' || k.lab=='x') return variant==1 ? std::vector<double>{-2,0,3,INF} : std::vector<double>{0,1,3,INF};
    if (k.lab=='t') return {0,0.5,1,2};
    if (k.range=='r') return {-1.5,0,0.5,2};
    return variant==1 ? std::vector<double>{-1,0,1,2} : std::vector<double>{-2,0,1,3};
}

// the kind's alphabet, or the two-value one when function numbers over this shape would not fit 64 bits
static std::vector<double> alphabet_for(const Kind& k, const Shape& s, int variant=0)
{
    std::vector<double> V = alphabet(k,variant);
    if ((double)s.points(k.rel)*std::log2((double)V.size()) > 64.0) V = alphabet(k,2);
    return V;
}

static rangeval to_rangeval(const Kind& k, double v)
{
    if (v==INF) return rangeval(range_special::PLUS_INFINITY, rt_of(k.range));
    if (k.range=='b') return rangeval(v!=0);
    if (k.range=='i') return rangeval((long)v);
    return rangeval(v);
}
static double from_rangeval(const rangeval& r)
{
    if (r.isPlusInfinity()) return INF;
    if (r.isBoolean()) return bool(r) ? 1.0 : 0.0;
    if (r.isInteger()) return (double) long(r);
    return double(r);
}
static bool val_eq(const Kind& k, double a, double b)
{
    if (a==b) return true;
    if (a==INF || b==INF) return false;
    if (k.range!='r') return false;
    if (k.lab=='t') { double m = std::max(fabs(a),fabs(b)); return fabs(a-b) <= 1e-5*m + 1e-12; }
    return fabs(a-b) <= 1.5e-5;   // MT real: terminals rounded to multiples of 1e-5
}
static bool tab_eq(const Kind& k, const Table& a, const Table& b)
{
    if (a.size()!=b.size()) return false;
    for (size_t i=0;i<a.size();i++) if (!val_eq(k,a[i],b[i])) return false;
    return true;
}

// =====================================================================================
// 4. Library instance
// =====================================================================================
struct CTcfg {
    char style = 'u';   // 'c' MonolithicChained, 'u' MonolithicUnchained (default), 'C' OperationChained, 'U' OperationUnchained
    char stale = 'm';   // 'a' aggressive, 'm' moderate (default), 'l' lazy
    unsigned long maxSize = 16777216;
    bool compress = false;
    std::string name() const { char b[64]; snprintf(b,sizeof b,"%c%c%lu%s",style,stale,maxSize,compress?"z":""); return b; }
};
static CTcfg ct_parse(const std::string& s)
{
    CTcfg c; if (s.size()<3) return c;
    c.style=s[0]; c.stale=s[1]; c.maxSize=strtoul(s.c_str()+2,nullptr,10); c.compress = s.back()=='z';
    return c;
}
static bool lib_up = false;
static void lib_init(const CTcfg& c = CTcfg())
{
    // The ct_initializer constructor (inside defaultInitializerList) RESETS the static compute-table settings to the
    // library defaults, so the list must exist before the settings are chosen (this is also the order the library's own
    // tests use).  An earlier version of this function chose first and thereby silently ran every "configuration" as the default.
    initializer_list* IL = defaultInitializerList(nullptr);
    switch (c.style) {
        case 'c': ct_initializer::setBuiltinStyle(ct_initializer::MonolithicChainedHash); break;
        case 'C': ct_initializer::setBuiltinStyle(ct_initializer::OperationChainedHash); break;
        case 'U': ct_initializer::setBuiltinStyle(ct_initializer::OperationUnchainedHash); break;
        default:  ct_initializer::setBuiltinStyle(ct_initializer::MonolithicUnchainedHash);
    }
    switch (c.stale) {
        case 'a': ct_initializer::setStaleRemoval(staleRemovalOption::Aggressive); break;
        case 'l': ct_initializer::setStaleRemoval(staleRemovalOption::Lazy); break;
        default:  ct_initializer::setStaleRemoval(staleRemovalOption::Moderate);
    }
    ct_initializer::setMaxSize(c.maxSize);
    ct_initializer::setCompression(c.compress ? compressionOption::TypeBased : compressionOption::None);
    MEDDLY::initialize(IL);
    lib_up = true;
    // bind the requested configuration to the one in force (private statics read through -fno-access-control)
    {
        const compute_table_style* f = ct_initializer::ct_factory;
        const bool styleok = (c.style=='c' && dynamic_cast<const monolithic_chained_style*>(f)) || (c.style=='C' && dynamic_cast<const operation_chained_style*>(f))
                          || (c.style=='U' && dynamic_cast<const operation_unchained_style*>(f)) || (c.style=='u' && dynamic_cast<const monolithic_unchained_style*>(f));
        const staleRemovalOption so = c.stale=='a' ? staleRemovalOption::Aggressive : c.stale=='l' ? staleRemovalOption::Lazy : staleRemovalOption::Moderate;
        const bool mono = (c.style=='c' || c.style=='u');
        if (!styleok || ct_initializer::the_settings.staleRemoval!=so || ct_initializer::the_settings.maxSize!=c.maxSize
            || (ct_initializer::the_settings.compression==compressionOption::TypeBased)!=c.compress || (compute_table::Monolithic_CT!=nullptr)!=mono) {
            printf("\nCRASH\t%ld\t%d\tharness: compute-table configuration %s requested but not in force\n", ctx.caseno, 98, c.name().c_str()); fflush(stdout); _exit(98);
        }
    }
}
static void lib_done() { if (lib_up) MEDDLY::cleanup(); lib_up = false; }

// =====================================================================================
// 5. Harness builder: truth table -> edge, using only getEdgeForValue + createReducedNode
// =====================================================================================
struct RawEdge { edge_value ev; node_handle node; };

struct Builder {
    forest* F; Kind k; Shape s;
    std::vector<long> stride;   // stride[k] = product of digit bases below variable k
    Builder(forest* f, const Kind& kk, const Shape& ss) : F(f), k(kk), s(ss) {
        stride.resize(s.K()+2); stride[1]=1;
        for (int i=1;i<=s.K();i++) stride[i+1] = stride[i] * (k.rel ? (long)s.b[i-1]*s.b[i-1] : (long)s.b[i-1]);
    }
    RawEdge term(double v) {
        RawEdge e; F->getEdgeForValue(to_rangeval(k, v), e.ev, e.node); return e;
    }
    RawEdge rec_set(const Table& t, int lev, long off) {
        if (lev==0) return term(t[off]);
        int b = F->getLevelSize(lev);
        unpacked_node* un = unpacked_node::newWritable(F, lev, FULL_ONLY);
        for (int i=0;i<b;i++) { RawEdge c = rec_set(t, lev-1, off + i*stride[lev]); un->setFull(i, c.ev, c.node); }
        RawEdge r; F->createReducedNode(un, r.ev, r.node);
        return r;
    }
    RawEdge rec_un(const Table& t, int lev, long off) {
        if (lev==0) return term(t[off]);
        int b = F->getLevelSize(lev);
        unpacked_node* un = unpacked_node::newWritable(F, lev, FULL_ONLY);
        for (int i=0;i<b;i++) { RawEdge c = rec_pr(t, lev, off + i*b*stride[lev], i); un->setFull(i, c.ev, c.node); }
        RawEdge r; F->createReducedNode(un, r.ev, r.node);
        return r;
    }
    RawEdge rec_pr(const Table& t, int lev, long off, int in) {
        int b = F->getLevelSize(-lev);
        unpacked_node* un = unpacked_node::newWritable(F, -lev, FULL_ONLY);
        for (int j=0;j<b;j++) { RawEdge c = rec_un(t, lev-1, off + j*stride[lev]); un->setFull(j, c.ev, c.node); }
        RawEdge r; F->createReducedNode(un, r.ev, r.node, in);
        return r;
    }
    void build(const Table& t, dd_edge& out) {
        RawEdge r = k.rel ? rec_un(t, s.K(), 0) : rec_set(t, s.K(), 0);
        out.set(r.ev, r.node);     // dd_edge::set takes over the reference
    }
};

// =====================================================================================
// 6. Readers
// =====================================================================================
// (a) through dd_edge::evaluate
static void read_eval(const dd_edge& e, const Kind& k, const Shape& s, Table& out)
{
    long P = s.points(k.rel);
    out.resize(P);
    minterm m(e.getForest());
    int x[16], xp[16];
    rangeval rv;
    for (long p=0;p<P;p++) {
        if (k.rel) { decode_rel(s,p,x,xp); for (int i=1;i<=s.K();i++) m.setVars(i,x[i],xp[i]); }
        else { decode_set(s,p,x); for (int i=1;i<=s.K();i++) m.setVar(i,x[i]); }
        try { e.evaluate(m, rv); out[p] = from_rangeval(rv); }
        catch (MEDDLY::error er) { out[p] = NAN; }   // evaluate() itself failed: reported as a value mismatch (nan)
    }
}
// (b) the harness walker: own reading of the reduction rules and of EV accumulation
static double walk_point(const forest* F, const Kind& k, int K, const edge_value& rev, node_handle rnode, const int* x, const int* xp)
{
    node_handle node = rnode;
    long accp = 0; double acct = 1.0;
    if (k.isEVp()) { long v; rev.get(v); accp = v; }
    if (k.isEVt()) { float v; rev.get(v); acct = v; }
    const bool ident = (k.rr=='I');
    for (int lev=K; lev>=1; --lev) {
        for (int pr=0; pr<(k.rel?2:1); ++pr) {
            const int L = pr ? -lev : lev;
            if (node > 0 && F->getNodeLevel(node) == L) {
                int idx = pr ? xp[lev] : x[lev];
                unpacked_node* U = unpacked_node::newFromNode(F, node, FULL_ONLY);
                node_handle dn = ((unsigned)idx < U->getSize()) ? U->down((unsigned)idx) : F->getTransparentNode();
                if (U->hasEdges() && (unsigned)idx < U->getSize()) {
                    if (k.isEVp()) { long v; U->edgeval((unsigned)idx).get(v); accp += v; }
                    if (k.isEVt()) { float v; U->edgeval((unsigned)idx).get(v); acct *= v; }
                }
                unpacked_node::Recycle(U);
                node = dn;
            } else {
                // level L is skipped on this path
                if (ident && pr) {
                    // a skipped primed level in an identity-reduced forest means x'_k = x_k
                    // (whether or not the unprimed level was skipped too)
                    if (x[lev] != xp[lev]) return k.dflt();
                }
                // otherwise: don't care
            }
            // short-cut: transparent terminal
            if (node == 0 && !k.isMT()) return k.dflt();
        }
    }
    if (node > 0) return NAN;   // did not reach a terminal: structure broken
    if (k.isMT()) {
        if (node==0) return 0.0;
        if (k.range=='b') { bool v; F->getValueFromHandle(node, v); return v?1.0:0.0; }
        if (k.range=='i') { long v; F->getValueFromHandle(node, v); return (double)v; }
        float v; F->getValueFromHandle(node, v); return (double)v;
    }
    if (node == 0) return k.dflt();
    if (k.isEVp()) return (double)accp;
    return acct;
}
static void read_walk(const dd_edge& e, const Kind& k, const Shape& s, Table& out)
{
    long P = s.points(k.rel);
    out.resize(P);
    int x[16], xp[16];
    const forest* F = e.getForest();
    for (long p=0;p<P;p++) {
        if (k.rel) decode_rel(s,p,x,xp); else { decode_set(s,p,x); }
        out[p] = walk_point(F, k, s.K(), e.getEdgeValue(), e.getNode(), x, xp);
    }
}
// Double read-out; returns empty string when both agree with the expected table.
static std::string check_edge(const dd_edge& e, const Kind& k, const Shape& s, const Table& expect)
{
    Table a, b;
    read_eval(e,k,s,a);
    if (!tab_eq(k,a,expect)) return "evaluate() gives [" + tab_str(a) + "] expected [" + tab_str(expect) + "]";
    read_walk(e,k,s,b);
    if (!tab_eq(k,b,expect)) return "walker gives [" + tab_str(b) + "] expected [" + tab_str(expect) + "]";
    return "";
}

// =====================================================================================
// 7. Auditor
// =====================================================================================
struct AuditOpts {
    bool structure = true;      // A1..A10
    bool refcounts = true;      // A11
    bool refcounts_atleast = false; // A11 in ">=" mode (after error paths)
    bool cachecounts = true;    // A12
    bool roots = true;          // A13
    bool idxcard = true;        // A14
};

struct NodeView {   // index -> (edge value bits, child) for all indices of the level
    std::vector<node_handle> down;
    std::vector<unsigned long> ev;
};
static unsigned long ev_bits(const edge_value& v)
{
    if (v.isVoid()) return 0;
    unsigned long u = 0;
    if (v.isLong()) { long x; v.get(x); memcpy(&u,&x,8); }
    else if (v.isInt()) { int x; v.get(x); u=(unsigned)x; }
    else if (v.isFloat()) { float x; v.get(x); unsigned w; memcpy(&w,&x,4); u=w; }
    else if (v.isDouble()) { double x; v.get(x); memcpy(&u,&x,8); }
    return u;
}
static void view_of(const forest* F, node_handle p, node_storage_flags fs, NodeView& nv, bool* sorted_ok=nullptr, bool* has_transp_entry=nullptr)
{
    int lev = F->getNodeLevel(p);
    unsigned b = (unsigned) F->getLevelSize(lev);
    nv.down.assign(b, F->getTransparentNode());
    nv.ev.assign(b, ev_bits(F->getTransparentEdge()));
    unpacked_node* U = unpacked_node::newFromNode(F, p, fs);
    if (sorted_ok) *sorted_ok = true;
    if (has_transp_entry) *has_transp_entry = false;
    if (U->isFull()) {
        for (unsigned i=0;i<U->getSize() && i<b;i++) { nv.down[i]=U->down(i); if (U->hasEdges()) nv.ev[i]=ev_bits(U->edgeval(i)); }
        if (U->getSize() > b) { if (sorted_ok) *sorted_ok=false; }
    } else {
        for (unsigned z=0;z<U->getSize();z++) {
            unsigned i = U->index(z);
            if (z && U->index(z-1) >= i && sorted_ok) *sorted_ok=false;
            if (i>=b) { if (sorted_ok) *sorted_ok=false; continue; }
            nv.down[i]=U->down(z); if (U->hasEdges()) nv.ev[i]=ev_bits(U->edgeval(z));
            if (has_transp_entry && F->isTransparentEdge(U->hasEdges()? U->edgeval(z) : F->getTransparentEdge(), U->down(z))) *has_transp_entry=true;
        }
    }
    unpacked_node::Recycle(U);
}
static std::string node_content(const forest* F, node_handle p, const NodeView& nv)
{
    std::string s; char buf[64];
    snprintf(buf,sizeof buf,"L%d:",F->getNodeLevel(p)); s+=buf;
    for (size_t i=0;i<nv.down.size();i++) { snprintf(buf,sizeof buf,"%lx/%d,",nv.ev[i],(int)nv.down[i]); s+=buf; }
    return s;
}

static std::vector<node_handle> free_handles(const forest* F, std::string* err=nullptr)
{
    std::vector<node_handle> v;
    const node_headers& H = F->nodeHeaders;
    std::set<size_t> seen;
    for (int i=0;i<8;i++) {
        size_t p = H.a_unused[i];
        long guard = 0;
        while (p) {
            if (p >= H.a_size) { if (err) *err = "free list entry beyond handle array"; break; }
            if (!seen.insert(p).second) { if (err) *err = "handle " + std::to_string(p) + " twice on free lists"; break; }
            if (p <= H.a_last) v.push_back((node_handle)p);
            p = H.getNextOf(p);
            if (++guard > 100000000) { if (err) *err="free list cycle"; break; }
        }
    }
    return v;
}

// Structural signature of the DAG below an edge with handles abstracted away (C12, C13, A15).
static unsigned long dag_sig(const forest* F, node_handle p, std::unordered_map<node_handle,unsigned long>& memo)
{
    if (p <= 0) return hmix(0x1234, (unsigned long)(long)p);
    auto it = memo.find(p); if (it!=memo.end()) return it->second;
    NodeView nv; view_of(F,p,FULL_ONLY,nv);
    unsigned long h = hmix(77, (unsigned long)(long)F->getNodeLevel(p));
    for (size_t i=0;i<nv.down.size();i++) { h = hmix(h, nv.ev[i]); h = hmix(h, dag_sig(F, nv.down[i], memo)); }
    memo[p]=h; return h;
}

// Returns "" if all invariants hold, else a description of the first failure (prefixed by the invariant id).
static std::string audit_forest(forest* F, const Kind& k, const AuditOpts& o = AuditOpts())
{
    char buf[512];
    const node_headers& H = F->nodeHeaders;
    const node_handle last = F->getLastNode();
    const int K = (int)F->getNumVariables();
    ++ctx.audits;

    // free handles
    std::string ferr;
    std::vector<node_handle> freeh = free_handles(F, &ferr);
    if (!ferr.empty()) return "A12 " + ferr;
    std::vector<char> isfree(last+2, 0);
    for (node_handle h : freeh) isfree[h]=1;

    long active = 0;
    std::vector<unsigned> recount(last+2, 0);
    std::unordered_map<std::string,node_handle> contents;
    std::vector<long> perlevel(2*K+2, 0);

    for (node_handle p=1; p<=last; ++p) {
        if (!F->isActiveNode(p)) continue;
        ++active;
        if (isfree[p]) { snprintf(buf,sizeof buf,"A12 active node %d is on a free list",(int)p); return buf; }
        int lev = F->getNodeLevel(p);
        if (lev==0 || lev>K || lev < (k.rel ? -K : 1)) { snprintf(buf,sizeof buf,"A1 node %d has invalid level %d",(int)p,lev); return buf; }
        if (F->isImplicit(p)) continue;
        perlevel[lev+K]++;
        NodeView full, sparse, either;
        bool sorted=true, transp=false, s2=true, t2=false;
        view_of(F,p,FULL_ONLY,full);
        if (o.structure) {
            view_of(F,p,SPARSE_ONLY,sparse,&sorted,&transp);
            view_of(F,p,FULL_OR_SPARSE,either,&s2,&t2);
            if (!sorted || !s2) { snprintf(buf,sizeof buf,"A2 node %d: sparse view not sorted / index out of range",(int)p); return buf; }
            if (transp) { snprintf(buf,sizeof buf,"A2 node %d: sparse view holds a transparent entry",(int)p); return buf; }
            if (full.down!=sparse.down || full.ev!=sparse.ev) { snprintf(buf,sizeof buf,"A2 node %d: full and sparse views differ",(int)p); return buf; }
            if (full.down!=either.down || full.ev!=either.ev) { snprintf(buf,sizeof buf,"A2 node %d: full and full-or-sparse views differ",(int)p); return buf; }
        }
        const unsigned b = (unsigned)full.down.size();
        unsigned nnz=0; int singleidx=-1;
        for (unsigned i=0;i<b;i++) {
            node_handle d = full.down[i];
            bool tr = (d==F->getTransparentNode()) && (full.ev[i]==ev_bits(F->getTransparentEdge()));
            if (!tr) { ++nnz; singleidx=(int)i; }
            if (o.structure) {
                // getDownPtr both overloads
                node_handle d1 = F->getDownPtr(p,(int)i);
                edge_value e2; node_handle d2; F->getDownPtr(p,(int)i,e2,d2);
                if (d1!=d || d2!=d) { snprintf(buf,sizeof buf,"A2 node %d index %u: getDownPtr %d/%d vs unpacked %d",(int)p,i,(int)d1,(int)d2,(int)d); return buf; }
                if (!k.isMT() && ev_bits(e2)!=full.ev[i]) { snprintf(buf,sizeof buf,"A2 node %d index %u: getDownPtr edge value differs from unpacked",(int)p,i); return buf; }
            }
            if (d>0) {
                if (d>last || !F->isActiveNode(d)) { snprintf(buf,sizeof buf,"A4 node %d index %u points to inactive node %d",(int)p,i,(int)d); return buf; }
                int dl = F->getNodeLevel(d);
                // strictly below: order K, -K, K-1, -(K-1), ...
                auto rank = [&](int L){ return L>0 ? 2*L : (L<0 ? 2*(-L)-1 : 0); };
                if (rank(dl) >= rank(lev)) { snprintf(buf,sizeof buf,"A4 node %d (level %d) index %u points to node %d at level %d, not below",(int)p,lev,i,(int)d,dl); return buf; }
                if (!k.rel && dl<0) { snprintf(buf,sizeof buf,"A4 set forest node %d at primed level",(int)d); return buf; }
                recount[d]++;
            }
            if (o.structure && !tr) {
                int dl = d>0 ? F->getNodeLevel(d) : 0;
                if (k.rr=='Q') {
                    int want = k.rel ? (lev>0 ? -lev : (-lev)-1) : lev-1;
                    if (dl != want) { snprintf(buf,sizeof buf,"A5 quasi-reduced: node %d (level %d) index %u has child %d at level %d, expected level %d",(int)p,lev,i,(int)d,dl,want); return buf; }
                }
                if (k.rr=='I' && d>0 && dl<0) {
                    // pointer into a primed node: if it is a singleton, only legal from the unprimed level directly above with a different index
                    unsigned si; node_handle sd;
                    if (F->isSingletonNode(d,si,sd)) {
                        if (lev != -dl) { snprintf(buf,sizeof buf,"A7 identity-reduced: node %d (level %d) points to primed singleton %d (level %d) from a non-adjacent level",(int)p,lev,(int)d,dl); return buf; }
                        if (si==i) { snprintf(buf,sizeof buf,"A7 identity-reduced: node %d index %u points to primed singleton %d with the same index",(int)p,i,(int)d); return buf; }
                    }
                }
            }
        }
        if (o.structure) {
            if (nnz==0) { snprintf(buf,sizeof buf,"A3 node %d is entirely transparent",(int)p); return buf; }
            // isSingletonNode agreement
            unsigned si=0; node_handle sd=0;
            bool sing = F->isSingletonNode(p,si,sd);
            if (sing != (nnz==1) || (sing && ((int)si!=singleidx || sd!=full.down[singleidx]))) { snprintf(buf,sizeof buf,"A2 node %d: isSingletonNode=%d idx %u but view has %u non-transparent",(int)p,(int)sing,si,nnz); return buf; }
            // A6 redundancy
            bool checkred = (k.rr=='F') || (k.rr=='I' && lev>0);
            if (checkred && nnz==b) {
                bool red=true;
                for (unsigned i=1;i<b;i++) if (full.down[i]!=full.down[0] || full.ev[i]!=full.ev[0]) { red=false; break; }
                if (red) { snprintf(buf,sizeof buf,"A6 node %d (level %d) is redundant in a %s forest",(int)p,lev,k.rr=='F'?"fully-reduced":"identity-reduced"); return buf; }
            }
            // A8 edge-value normalisation
            if (k.isEVp()) {
                bool haszero=false;
                for (unsigned i=0;i<b;i++) {
                    bool tr = (full.down[i]==0 && full.ev[i]==0);
                    if (full.down[i]==0 && full.ev[i]!=0) { snprintf(buf,sizeof buf,"A8 EV+ node %d index %u: infinity edge carries non-zero value",(int)p,i); return buf; }
                    if (!tr) { long v; memcpy(&v,&full.ev[i],8); if (v<0) { snprintf(buf,sizeof buf,"A8 EV+ node %d index %u: negative edge value %ld after normalisation",(int)p,i,v); return buf; } if (v==0) haszero=true; }
                }
                if (!haszero) { snprintf(buf,sizeof buf,"A8 EV+ node %d: minimum edge value is not 0",(int)p); return buf; }
            }
            if (k.isEVt()) {
                for (unsigned i=0;i<b;i++) {
                    if (full.down[i]==0) { unsigned w=(unsigned)full.ev[i]; float f; memcpy(&f,&w,4); if (f!=0) { snprintf(buf,sizeof buf,"A8 EV* node %d index %u: zero edge with non-zero value",(int)p,i); return buf; } continue; }
                    unsigned w=(unsigned)full.ev[i]; float f; memcpy(&f,&w,4);
                    if (f!=1.0f) { snprintf(buf,sizeof buf,"A8 EV* node %d: first non-zero edge value is %g, not 1",(int)p,f); return buf; }
                    break;
                }
            }
            // A9 duplicates
            std::string c = node_content(F,p,full);
            auto ins = contents.emplace(c,p);
            if (!ins.second) { snprintf(buf,sizeof buf,"A9 nodes %d and %d have identical content %s",(int)ins.first->second,(int)p,c.c_str()); return buf; }
            // A10 hashes and unique-table membership
            unsigned hn = F->hashNode(p);
            for (node_storage_flags fs : {FULL_ONLY, SPARSE_ONLY}) {
                unpacked_node* U = unpacked_node::newFromNode(F,p,fs);
                U->computeHash();
                unsigned hu = U->hash();
                node_handle found = F->unique->find(*U, F->getVarByLevel(lev));
                unpacked_node::Recycle(U);
                if (hu!=hn) { snprintf(buf,sizeof buf,"A10 node %d: stored hash %u differs from %s unpacked hash %u",(int)p,hn,fs==FULL_ONLY?"full":"sparse",hu); return buf; }
                if (found!=p) { snprintf(buf,sizeof buf,"A10 node %d: unique table lookup with %s view returns %d",(int)p,fs==FULL_ONLY?"full":"sparse",(int)found); return buf; }
            }
            // A14 index-set cardinalities
            if (o.idxcard && k.lab=='x') {
                long sum=0;
                for (unsigned i=0;i<b;i++) { if (full.down[i]==0) continue; sum += F->getIndexSetCardinality(full.down[i]); }
                if (sum != F->getIndexSetCardinality(p)) { snprintf(buf,sizeof buf,"A14 index-set node %d stores cardinality %d, children sum to %ld",(int)p,F->getIndexSetCardinality(p),sum); return buf; }
            }
        }
    }
    // A1 counts
    if (o.structure) {
        if (active != F->getCurrentNumNodes()) { snprintf(buf,sizeof buf,"A1 getCurrentNumNodes()=%ld but %ld active handles",F->getCurrentNumNodes(),active); return buf; }
        long ut=0;
        for (int v=F->unique->min_var; v<=F->unique->max_var; v++) { if (v==0) continue; ut += F->unique->getNumEntries(v); }
        if (ut != active) { snprintf(buf,sizeof buf,"A1 unique table holds %ld entries but %ld active nodes",ut,active); return buf; }
        for (int L=-K; L<=K; L++) {
            if (L==0 || (!k.rel && L<0)) continue;
            long n = F->unique->getNumEntries(F->getVarByLevel(L));
            if (n != perlevel[L+K]) { snprintf(buf,sizeof buf,"A1 unique subtable for level %d holds %ld entries but %ld active nodes at that level",L,n,perlevel[L+K]); return buf; }
        }
    }
    // A13 + roots contribution to A11
    {
        long guard=0;
        for (const dd_edge* r = F->roots; r; r=r->next) {
            node_handle n = r->getNode();
            if (++guard > 100000000) return "A13 root list cycle";
            if (n>0) {
                if (n>last || !F->isActiveNode(n)) { snprintf(buf,sizeof buf,"A13 registered dd_edge points to inactive node %d",(int)n); return buf; }
                recount[n]++;
            }
            if (r->parentFID != F->FID()) { snprintf(buf,sizeof buf,"A13 edge registered in forest %u carries forest id %u",F->FID(),r->parentFID); return buf; }
        }
    }
    if (o.refcounts || o.refcounts_atleast) {
        std::vector<unsigned> extra(last+2,0);
        unpacked_node::AddToIncomingCounts(F, extra);
        for (node_handle p=1;p<=last;++p) {
            if (!F->isActiveNode(p)) continue;
            unsigned long want = recount[p]+extra[p];
            unsigned long have = F->getNodeInCount(p);
            bool bad = o.refcounts_atleast ? (have < want) : (have != want);
            if (bad) { snprintf(buf,sizeof buf,"A11 node %d (level %d): recorded incoming count %lu, recount %lu (parents+edges %u, under construction %u)",(int)p,F->getNodeLevel(p),have,want,recount[p],extra[p]); return buf; }
        }
    }
    if (o.cachecounts) {
        std::vector<unsigned long> cc(H.a_size + 4096, 0);
        compute_table::countAllNodeEntries(F, cc);
        for (size_t p=1;p<cc.size();++p) {
            if (p > (size_t)last) { if (cc[p]) { snprintf(buf,sizeof buf,"A12 compute-table entry mentions handle %zu beyond last handle %d",p,(int)last); return buf; } continue; }
            unsigned long have = H.getNodeCacheCount((node_handle)p);
            if (have != cc[p]) { snprintf(buf,sizeof buf,"A12 node %zu: cache count %lu but %lu compute-table entries mention it",p,have,cc[p]); return buf; }
            if (isfree[p] && cc[p]) { snprintf(buf,sizeof buf,"A12 free handle %zu is mentioned by %lu compute-table entries",p,cc[p]); return buf; }
        }
        for (node_handle h : freeh) if (H.getNodeCacheCount(h)) { snprintf(buf,sizeof buf,"A12 free handle %d has cache count %lu",(int)h,H.getNodeCacheCount(h)); return buf; }
    }
    return "";
}

// Fingerprint of a forest for "left untouched" checks (A15): multiset of node contents by handle + roots + order
static unsigned long forest_fingerprint(forest* F)
{
    unsigned long h = 99;
    node_handle last = F->getLastNode();
    h = hmix(h,(unsigned long)last);
    for (node_handle p=1;p<=last;++p) {
        if (!F->isActiveNode(p)) { h=hmix(h,0xdead); continue; }
        NodeView nv; view_of(F,p,FULL_ONLY,nv);
        h = hmix(h, hstr(node_content(F,p,nv)));
        h = hmix(h, F->getNodeInCount(p));
    }
    for (const dd_edge* r=F->roots; r; r=r->next) { h=hmix(h,(unsigned long)(long)r->getNode()); h=hmix(h,ev_bits(r->getEdgeValue())); }
    for (int i=1;i<=(int)F->getNumVariables();i++) h=hmix(h,(unsigned long)F->getVarByLevel(i));
    return h;
}

// number of distinct nodes / edges reachable from an edge (harness BFS), for C11/C12
static void reach_counts(const forest* F, node_handle root, unsigned long& nodes, unsigned long& edges_nz, unsigned long& edges_all)
{
    std::set<node_handle> seen; std::vector<node_handle> st;
    nodes=0; edges_nz=0; edges_all=0;
    if (root>0) { st.push_back(root); seen.insert(root); }
    while (!st.empty()) {
        node_handle p=st.back(); st.pop_back(); ++nodes;
        NodeView nv; view_of(F,p,FULL_ONLY,nv);
        for (size_t i=0;i<nv.down.size();i++) {
            ++edges_all;
            bool tr = nv.down[i]==F->getTransparentNode() && nv.ev[i]==ev_bits(F->getTransparentEdge());
            if (!tr) ++edges_nz;
            if (nv.down[i]>0 && seen.insert(nv.down[i]).second) st.push_back(nv.down[i]);
        }
    }
}

// =====================================================================================
// 8. Operation helpers: building an operation may be declined by the library (not a violation)
// =====================================================================================
typedef binary_factory& (*BinF)();
typedef unary_factory& (*UnF)();
static std::set<std::string> declined_once;
static binary_operation* get_bop(binary_factory& f, forest* a, forest* b, forest* c, const char* name)
{
    binary_operation* op = nullptr;
    const char* why = "factory returned null";
    try { op = f.build(a,b,c); } catch (MEDDLY::error e) { op = nullptr; why = e.getName(); }
    if (!op) {
        char buf[256]; snprintf(buf,sizeof buf,"%s(%u,%u->%u): %s",name,a->FID(),b->FID(),c->FID(),why);
        if (declined_once.insert(buf).second) declined("%s", buf);
    }
    return op;
}
static unary_operation* get_uop(unary_factory& f, forest* a, forest* c, const char* name)
{
    unary_operation* op = nullptr;
    const char* why = "factory returned null";
    try { op = f.build(a,c); } catch (MEDDLY::error e) { op = nullptr; why = e.getName(); }
    if (!op) {
        char buf[256]; snprintf(buf,sizeof buf,"%s(%u->%u): %s",name,a->FID(),c->FID(),why);
        if (declined_once.insert(buf).second) declined("%s", buf);
    }
    return op;
}

// A universe of functions held in one forest, indexable by function number.
struct Universe {
    forest* F = nullptr; Kind k; Shape s; std::vector<double> V; long P = 0; unsigned long U = 0;
    std::vector<dd_edge> e;
    // lazy mode (universe too large to enumerate, e.g. relations over three variables): functions are built and verified on first use
    bool lazy = false; std::map<unsigned long,dd_edge> le;
    // builds and verifies (double read-out) every function; returns false on a build violation
    bool build(forest* f, const Kind& kk, const Shape& ss, const std::vector<double>& vv, bool verify=true) {
        F=f; k=kk; s=ss; V=vv; P=s.points(k.rel);
        if ((double)P*std::log2((double)V.size()) > 22.0) { lazy=true; U=0; return true; }
        U=ipow(V.size(),P);
        e.assign(U, dd_edge(F));
        Builder B(F,k,s);
        for (unsigned long i=0;i<U;i++) {
            Table t = tab_from_index(i,P,V);
            B.build(t, e[i]);
            if (verify) {
                std::string err = check_edge(e[i],k,s,t);
                if (!err.empty()) { snprintf(ctx.cur,sizeof ctx.cur,"universe build kind=%s shape=%s f=%lu [%s]",k.name().c_str(),s.name.c_str(),i,tab_str(t).c_str()); violation("build-readback","%s",err.c_str()); return false; }
            }
        }
        return true;
    }
    // the canonical edge of function number i
    const dd_edge& get(unsigned long i) {
        if (!lazy) return e[i];
        auto it = le.find(i); if (it!=le.end()) return it->second;
        dd_edge x(F); Table t = tab_from_index(i,P,V); Builder B(F,k,s); B.build(t, x);
        std::string err = check_edge(x,k,s,t);
        if (!err.empty()) { char save[sizeof ctx.cur]; memcpy(save,ctx.cur,sizeof save); snprintf(ctx.cur,sizeof ctx.cur,"lazy universe build kind=%s shape=%s f=%lu",k.name().c_str(),s.name.c_str(),i); lz_fn_reset(); violation("build-readback","%s",err.c_str()); memcpy(ctx.cur,save,sizeof save); }
        return le.emplace(i,x).first->second;
    }
    Table table(unsigned long i) const { return tab_from_index(i,P,V); }
    // function number of a table, or -1 if some value is outside the alphabet
    long index_of(const Table& t) const {
        unsigned long idx=0;
        for (long p=P-1;p>=0;p--) {
            int d=-1; for (size_t j=0;j<V.size();j++) if (V[j]==t[p]) { d=(int)j; break; }
            if (d<0) return -1;
            idx = idx*V.size()+d;
        }
        return (long)idx;
    }
    // re-read every held edge: "operands are never changed"
    std::string recheck() const {
        for (unsigned long i=0;i<U;i++) {
            Table t = table(i), x; read_eval(e[i],k,s,x);
            if (!tab_eq(k,x,t)) return "held operand f=" + std::to_string(i) + " now reads [" + tab_str(x) + "], was [" + tab_str(t) + "]";
        }
        for (auto& kv : le) {
            Table t = table(kv.first), x; read_eval(kv.second,k,s,x);
            if (!tab_eq(k,x,t)) return "held operand f=" + std::to_string(kv.first) + " now reads [" + tab_str(x) + "], was [" + tab_str(t) + "]";
        }
        return "";
    }
    void clear() { e.clear(); le.clear(); }
};

// "event" relations as bit masks (needs relPoints <= 64): a single transition on one or two variables, identity on every other
// variable; two=true adds the unions of two events.  These are the relation shapes whose diagrams skip levels (identity) in the middle.
static std::vector<unsigned long> event_masks(const Shape& s, bool two)
{
    std::vector<unsigned long> ev, v; int x[16], xp[16]; long RP = s.relPoints();
    if (RP>64) return v;
    for (int a=1; a<=s.K(); a++) for (int b=a; b<=s.K(); b++) {
        int ba=s.b[a-1], bb=s.b[b-1];
        for (int fa=0;fa<ba;fa++) for (int ta=0;ta<ba;ta++) for (int fb=0;fb<(a==b?1:bb);fb++) for (int tb=0;tb<(a==b?1:bb);tb++) {
            unsigned long m=0;
            for (long p=0;p<RP;p++) { decode_rel(s,p,x,xp); bool ok = x[a]==fa && xp[a]==ta && (a==b || (x[b]==fb && xp[b]==tb)); for (int u=1;u<=s.K();u++) if (u!=a && u!=b && x[u]!=xp[u]) ok=false; if (ok) m|=1UL<<p; }
            ev.push_back(m);
        }
    }
    if (!two) v=ev; else for (size_t i=0;i<ev.size();i++) for (size_t j=i;j<ev.size();j++) v.push_back(ev[i]|ev[j]);
    std::sort(v.begin(),v.end()); v.erase(std::unique(v.begin(),v.end()),v.end());
    return v;
}

// Oracle for an operation result: identical to the harness-built canonical edge for the expected
// table (exact kinds), else compared value by value through both readers.
static std::string check_result(const dd_edge& res, const Kind& k, const Shape& s, const Table& expect, bool exact=true)
{
    forest* F = res.getForest();
    if (!F) return "result edge is not attached to a forest";
    if (exact && k.range!='r') {
        Builder B(F,k,s);
        dd_edge x(F); B.build(expect, x);
        if (x == res) return "";
        Table a; read_eval(res,k,s,a);
        if (tab_eq(k,a,expect)) {
            Table b; read_walk(res,k,s,b);
            if (tab_eq(k,b,expect)) return "NONCANONICAL: result denotes the expected function [" + tab_str(expect) + "] but is not the canonical edge";
            return "walker gives [" + tab_str(b) + "] expected [" + tab_str(expect) + "]";
        }
        return "result reads [" + tab_str(a) + "] expected [" + tab_str(expect) + "]";
    }
    return check_edge(res,k,s,expect);
}

// The structured family B (DESIGN 3.2): defined by exhaustive rules, returned as sorted function numbers.
//  (1) all functions differing from a constant in at most `npts` points
//  (2) all functions depending on a single variable (relations: on a single (x_k,x'_k) pair)
//  (3) relations: g * [x_k = x'_k for k in I] for every non-empty I, g constant or single-variable
static std::vector<unsigned long> structured_family(const Kind& k, const Shape& s, const std::vector<double>& V, int npts=2, bool rules23=true)
{
    long P = s.points(k.rel); size_t n = V.size();
    std::set<unsigned long> out;
    std::vector<unsigned long> pw(P+1); pw[0]=1; for (long p=1;p<=P;p++) pw[p]=pw[p-1]*n;
    auto idx_of = [&](const std::vector<int>& dig){ unsigned long x=0; for (long p=P-1;p>=0;p--) x=x*n+dig[p]; return x; };
    // (1)
    for (size_t c=0;c<n;c++) {
        std::vector<int> dig(P,(int)c);
        out.insert(idx_of(dig));
        for (long p=0;p<P;p++) for (size_t a=0;a<n;a++) { if (a==c) continue; dig[p]=(int)a; out.insert(idx_of(dig));
            if (npts>=2) for (long q=p+1;q<P;q++) for (size_t b=0;b<n;b++) { if (b==c) continue; dig[q]=(int)b; out.insert(idx_of(dig)); dig[q]=(int)c; }
            dig[p]=(int)c; }
    }
    // (2) and (3)
    int x[16], xp[16];
    int zero_digit = 0; for (size_t j=0;j<n;j++) if (V[j]==k.dflt()) zero_digit=(int)j;
    for (int var=1; rules23 && var<=s.K(); var++) {
        int b = s.b[var-1]; int cells = k.rel ? b*b : b;
        unsigned long ng = ipow(n, cells);
        if (ng > 4096) continue;
        for (unsigned long g=0; g<ng; g++) {
            std::vector<int> gd(cells); { unsigned long y=g; for (int c=0;c<cells;c++){ gd[c]=y%n; y/=n; } }
            unsigned long nI = k.rel ? (1UL<<s.K()) : 1;
            for (unsigned long I=0; I<nI; I++) {
                std::vector<int> dig(P);
                for (long p=0;p<P;p++) {
                    int cell;
                    bool onid = true;
                    if (k.rel) { decode_rel(s,p,x,xp); cell = x[var]*b+xp[var]; for (int m=1;m<=s.K();m++) if ((I>>(m-1))&1) if (x[m]!=xp[m]) onid=false; }
                    else { decode_set(s,p,x); cell = x[var]; }
                    dig[p] = onid ? gd[cell] : zero_digit;
                }
                out.insert(idx_of(dig));
            }
        }
    }
    return std::vector<unsigned long>(out.begin(), out.end());
}

// cheap case bookkeeping for very long sweeps: the description is formatted only on demand
typedef void (*lazy_fmt)(char* buf, size_t n, const long* a);
static lazy_fmt lz_fn = nullptr; static long lz_a[8];
static void lz_fn_reset() { lz_fn = nullptr; }
static void materialize() { if (lz_fn && !ctx.cur[0]) { lz_fn(ctx.cur, sizeof(ctx.cur), lz_a); sanitize(ctx.cur); } }
static inline bool case_lazy(lazy_fmt f, long a0=0, long a1=0, long a2=0, long a3=0, long a4=0, long a5=0, long a6=0)
{
    ++ctx.caseno;
    if (ctx.stop) return false;
    if (ctx.only >= 0 && ctx.caseno != ctx.only) return false;
    if (ctx.upto >= 0 && ctx.caseno > ctx.upto) { ctx.stop = true; return false; }
    lz_fn = f; lz_a[0]=a0; lz_a[1]=a1; lz_a[2]=a2; lz_a[3]=a3; lz_a[4]=a4; lz_a[5]=a5; lz_a[6]=a6;
    ctx.cur[0] = 0;
    ++ctx.evals;
    watchdog_kick();
    if (ctx.samples.empty()) { materialize(); ctx.samples.push_back(ctx.cur); }
    else if ((ctx.evals & (ctx.evals-1)) == 0) { materialize(); if (ctx.samples.size()<2) ctx.samples.push_back(ctx.cur); else ctx.samples[1] = ctx.cur; }
    return true;
}

// set a minterm to a point
static void set_point(minterm& m, const Kind& k, const Shape& s, long p)
{
    int x[16], xp[16];
    if (k.rel) { decode_rel(s,p,x,xp); for (int i=1;i<=s.K();i++) m.setVars(i,x[i],xp[i]); }
    else { decode_set(s,p,x); for (int i=1;i<=s.K();i++) m.setVar(i,x[i]); }
}

#endif
